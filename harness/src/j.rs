//! JSON projections of the library's public values, in the shapes the TLA+ specification uses.
use flipdot_core::{Address, ChunkCount, Data, Frame, FrameError, Message, MsgType, Offset, Operation, State};
use serde_json::{Value, json};

pub fn bytes(b: &[u8]) -> Value {
    Value::Array(b.iter().map(|&x| Value::from(x)).collect())
}

pub fn to_bytes(v: &Value) -> Vec<u8> {
    v.as_array().expect("byte array").iter().map(|x| x.as_u64().expect("byte") as u8).collect()
}

pub const STATES: [State; 13] = [
    State::Unconfigured,
    State::ConfigInProgress,
    State::ConfigReceived,
    State::ConfigFailed,
    State::PixelsInProgress,
    State::PixelsReceived,
    State::PixelsFailed,
    State::PageLoaded,
    State::PageLoadInProgress,
    State::PageShown,
    State::PageShowInProgress,
    State::ShowingPages,
    State::ReadyToReset,
];

pub const OPS: [Operation; 6] = [
    Operation::ReceiveConfig,
    Operation::ReceivePixels,
    Operation::ShowLoadedPage,
    Operation::LoadNextPage,
    Operation::StartReset,
    Operation::FinishReset,
];

pub fn state_name(s: State) -> String {
    format!("{:?}", s)
}
pub fn op_name(o: Operation) -> String {
    format!("{:?}", o)
}
pub fn state_from(name: &str) -> State {
    *STATES.iter().find(|s| state_name(**s) == name).unwrap_or_else(|| panic!("state {}", name))
}
pub fn op_from(name: &str) -> Operation {
    *OPS.iter().find(|s| op_name(**s) == name).unwrap_or_else(|| panic!("op {}", name))
}

pub fn frame(f: &Frame<'_>) -> Value {
    json!({"addr": f.address().0, "type": f.message_type().0, "data": bytes(f.data())})
}

pub fn mk_frame(addr: u16, ty: u8, data: &[u8]) -> Frame<'static> {
    Frame::new(Address(addr), MsgType(ty), Data::try_new(data.to_vec()).expect("data fits"))
}

pub fn frame_from(v: &Value) -> Frame<'static> {
    mk_frame(v["addr"].as_u64().unwrap() as u16, v["type"].as_u64().unwrap() as u8, &to_bytes(&v["data"]))
}

fn m(k: &str, a: u16, s: &str, t: u8, d: &[u8]) -> Value {
    json!({"k": k, "a": a, "s": s, "t": t, "d": bytes(d)})
}

/// Uniform message record [k, a, s, t, d].
pub fn msg(msg: &Message<'_>) -> Value {
    match msg {
        Message::SendData(Offset(o), d) => m("SendData", *o, "", 0, d.get()),
        Message::DataChunksSent(ChunkCount(n)) => m("DataChunksSent", *n, "", 0, &[]),
        Message::Hello(Address(a)) => m("Hello", *a, "", 0, &[]),
        Message::QueryState(Address(a)) => m("QueryState", *a, "", 0, &[]),
        Message::Goodbye(Address(a)) => m("Goodbye", *a, "", 0, &[]),
        Message::PixelsComplete(Address(a)) => m("PixelsComplete", *a, "", 0, &[]),
        Message::ReportState(Address(a), s) => m("ReportState", *a, &state_name(*s), 0, &[]),
        Message::RequestOperation(Address(a), o) => m("RequestOperation", *a, &op_name(*o), 0, &[]),
        Message::AckOperation(Address(a), o) => m("AckOperation", *a, &op_name(*o), 0, &[]),
        Message::Unknown(f) => m("Unknown", f.address().0, "", f.message_type().0, f.data()),
        other => m(&format!("Other:{:?}", other), 0, "", 0, &[]),
    }
}

pub fn msg_from(v: &Value) -> Message<'static> {
    let a = v["a"].as_u64().unwrap() as u16;
    let s = v["s"].as_str().unwrap();
    let d = to_bytes(&v["d"]);
    match v["k"].as_str().unwrap() {
        "SendData" => Message::SendData(Offset(a), Data::try_new(d).unwrap()),
        "DataChunksSent" => Message::DataChunksSent(ChunkCount(a)),
        "Hello" => Message::Hello(Address(a)),
        "QueryState" => Message::QueryState(Address(a)),
        "Goodbye" => Message::Goodbye(Address(a)),
        "PixelsComplete" => Message::PixelsComplete(Address(a)),
        "ReportState" => Message::ReportState(Address(a), state_from(s)),
        "RequestOperation" => Message::RequestOperation(Address(a), op_from(s)),
        "AckOperation" => Message::AckOperation(Address(a), op_from(s)),
        "Unknown" => Message::Unknown(mk_frame(a, v["t"].as_u64().unwrap() as u8, &d)),
        k => panic!("unknown message kind {}", k),
    }
}

/// Optional reply: the string "none" or a message record wrapped as {"some": msg} is awkward in TLA+,
/// so replies are always records: kind "None" with empty fields stands for no reply.
pub fn reply(r: &Option<Message<'_>>) -> Value {
    match r {
        None => m("None", 0, "", 0, &[]),
        Some(x) => msg(x),
    }
}

/// Uniform decode result [kind, addr, type, data, expected, actual].
pub fn decode_result(r: &Result<Frame<'_>, FrameError>) -> Value {
    match r {
        Ok(f) => json!({"kind": "ok", "addr": f.address().0, "type": f.message_type().0, "data": bytes(f.data()), "expected": 0, "actual": 0}),
        Err(FrameError::InvalidFrame { .. }) => res("invalid", 0, 0),
        Err(FrameError::FrameDataMismatch { expected, actual, .. }) => res("mismatch", *expected, *actual),
        Err(FrameError::BadChecksum { expected, actual, .. }) => res("badsum", *expected as usize, *actual as usize),
        Err(FrameError::DataTooLong { .. }) => res("toolong", 0, 0),
        Err(FrameError::Io { .. }) => res("io", 0, 0),
        Err(_) => res("othererr", 0, 0),
    }
}

pub fn res(kind: &str, expected: usize, actual: usize) -> Value {
    json!({"kind": kind, "addr": 0, "type": 0, "data": [], "expected": expected, "actual": actual})
}

pub fn panic_result() -> Value {
    res("panic", 0, 0)
}
