//! C06, C07, C19: pages and sign types.
use flipdot_core::{Address, ChunkCount, Data, Message, Offset, Operation, Page, PageFlipStyle, PageId, SignType, SignTypeError};
use flipdot_testing::VirtualSign;
use rand::rngs::StdRng;
use rand::{Rng, SeedableRng};
use serde_json::{Value, json};

use crate::ctl::ALL_TYPES;
use crate::j;
use crate::util::{Args, Report, TraceOut, catch, read_lines};

fn bpc(h: u32) -> usize {
    (h as usize + 7) / 8
}
fn data_bytes(w: u32, h: u32) -> usize {
    4 + w as usize * bpc(h)
}

/// PageObs: dimensions, id, length, header, padding and what every pixel reads (through get_pixel).
pub fn page_obs(p: &Page<'_>) -> Value {
    // a panic of an accessor (id, as_bytes, width, height) on a page that exists is data as well: the page then has the
    // empty projection, which no expected projection equals (seen with a rejected write that leaves the page without its buffer)
    catch(|| page_obs_inner(p)).unwrap_or_else(|_| json!({"w": 0, "h": 0, "id": 0, "len": 0, "header": [], "padding": [], "px": [], "accessor_panicked": 1}))
}

fn page_obs_inner(p: &Page<'_>) -> Value {
    let b = p.as_bytes();
    let (w, h) = (p.width(), p.height());
    // a panic of get_pixel on an in-bounds coordinate is data: that pixel reads 2
    let px: Vec<Value> = (0..w)
        .map(|x| Value::Array((0..h).map(|y| catch(|| p.get_pixel(x, y)).map(|b| json!(if b { 1 } else { 0 })).unwrap_or_else(|_| json!(2))).collect()))
        .collect();
    let db = data_bytes(w, h).min(b.len());
    json!({"w": w, "h": h, "id": p.id().0, "len": b.len(), "header": j::bytes(&b[..4.min(b.len())]), "padding": j::bytes(&b[db..]), "px": px})
}

fn apply_op(p: &mut Page<'_>, op: &Value) -> String {
    let x = op["x"].as_u64().unwrap() as u32;
    let y = op["y"].as_u64().unwrap() as u32;
    let v = op["v"].as_bool().unwrap();
    let r = match op["k"].as_str().unwrap() {
        "setall" => catch(|| {
            p.set_all_pixels(v);
            "ok".to_string()
        }),
        "set" => catch(|| {
            p.set_pixel(x, y, v);
            "ok".to_string()
        }),
        "get" => catch(|| if p.get_pixel(x, y) { "true".to_string() } else { "false".to_string() }),
        k => panic!("op {}", k),
    };
    r.unwrap_or_else(|_| "panic".to_string())
}

// ------------------------------------------------------------------ G: C06 state graph

pub fn replay_c06(path: &str) {
    let mut rep = Report::new();
    let mut states = 0usize;
    let mut transitions = 0usize;
    for v in read_lines(path) {
        states += 1;
        let w = v["w"].as_u64().unwrap() as u32;
        let h = v["h"].as_u64().unwrap() as u32;
        let id = v["id"].as_u64().unwrap() as u8;
        let fresh = Page::new(PageId(id), w, h);
        let backing = fresh.as_bytes().to_vec();
        let borrowed = Page::from_bytes(w, h, backing.as_slice()).expect("from_bytes of a fresh image");
        for (kind, start) in [("new", fresh.clone()), ("borrowed", borrowed)] {
            let ctx = json!({"w": w, "h": h, "id": id, "path": v["path"], "page": kind});
            let mut p = start;
            let mut ok = true;
            for op in v["path"].as_array().unwrap() {
                if apply_op(&mut p, op) == "panic" && !(op["k"] != "setall" && (op["x"].as_u64().unwrap() >= w as u64 || op["y"].as_u64().unwrap() >= h as u64)) {
                    rep.mismatch(json!({"what": "in-bounds operation panicked on the witness path", "ctx": ctx, "op": op}));
                    ok = false;
                    break;
                }
            }
            if !ok {
                continue;
            }
            let _ = rep.cmp("projection after path", &ctx, &v["obs"], &page_obs(&p));
            for e in v["edges"].as_array().unwrap() {
                transitions += 1;
                let mut c = p.clone();
                let res = apply_op(&mut c, &e["op"]);
                let ectx = json!({"w": w, "h": h, "id": id, "path": v["path"], "page": kind, "op": e["op"]});
                let _ = rep.cmp("result (ok / panic / pixel value)", &ectx, &e["res"], &json!(res));
                let _ = rep.cmp("projection after operation", &ectx, &e["obs"], &page_obs(&c));
            }
        }
    }
    rep.finish(json!({"states": states, "transitions": transitions}));
}

// ------------------------------------------------------------------ V: C06 random operation sequences

pub fn record_c06(a: &Args) -> usize {
    let thorough = a.tier == "thorough";
    let mut rng = StdRng::seed_from_u64(a.seed ^ 0xC06);
    let mut out = TraceOut::new(&a.out, "C06", a.shards);
    let mut sizes: Vec<(u32, u32)> = ALL_TYPES.iter().map(|t| t.dimensions()).collect();
    sizes.extend_from_slice(&[(0, 0), (0, 5), (5, 0), (1, 1), (1, 8), (1, 9), (2, 17), (3, 24), (4, 25), (12, 8), (28, 7)]);
    let n_rand = if thorough { 120 } else { 12 };
    for _ in 0..n_rand {
        sizes.push((rng.gen_range(0..=40), rng.gen_range(0..=33)));
    }
    if thorough {
        sizes.push((200, 33));
        sizes.push((255, 20));
    }
    // tall and wide pages with the full projection
    sizes.extend_from_slice(&[(2, 2050), (1, 2049), (3, 300), (300, 3), (1, 257 * 8)]);
    // huge pages with the sparse projection
    let huge: Vec<(u32, u32)> = if thorough { vec![(1, 16_777_217), (2, 1 << 20), (3, 70_000), (70_000, 9), (1, 1 << 24), (2, 16_777_217), (40_000, 110_000), (16_777_219, 1), (1 << 20, 9), (1 << 17, 33)] } else { vec![(1, 16_777_217), (2, 70_001), (40_000, 9), (70_000, 7), (65_537, 1), (131_080, 8), (65_576, 17)] };
    for (w, h) in huge {
        out.balance();
        record_sparse(&mut out, &mut rng, w, h, if (w as u64) * (h as u64) > (1 << 31) { 8 } else if thorough { 60 } else { 24 });
    }
    let ops_per = if thorough { 120 } else { 40 };
    for (k, (w, h)) in sizes.iter().enumerate() {
        out.balance();
        let id: u8 = rng.r#gen();
        let fresh = match catch(|| Page::new(PageId(id), *w, *h)) {
            Ok(p) => p,
            Err(_) => {
                // creating a page must not panic: recorded as an operation that panicked on an empty page
                out.emit(json!({"e": "page", "borrowed": false, "obs": {"w": w, "h": h, "id": id, "len": 0, "header": [], "padding": [], "px": []}}));
                out.emit(json!({"e": "op", "op": {"k": "setall", "x": 0, "y": 0, "v": false}, "res": "panic", "obs": {"w": w, "h": h, "id": id, "len": 0, "header": [], "padding": [], "px": []}}));
                continue;
            }
        };
        // borrowed variant: arbitrary (not 0xFF) padding and header bytes, to see that they are preserved
        let mut backing = fresh.as_bytes().to_vec();
        if k % 2 == 1 {
            let db = data_bytes(*w, *h);
            for (i, b) in backing.iter_mut().enumerate() {
                if i >= db || (i >= 1 && i < 4) {
                    *b = rng.r#gen();
                } else if i >= 4 {
                    *b = rng.r#gen();
                }
            }
        }
        let mut p: Page<'_> = if k % 2 == 1 { Page::from_bytes(*w, *h, backing.as_slice()).unwrap() } else { fresh };
        out.emit(json!({"e": "page", "borrowed": k % 2 == 1, "obs": page_obs(&p)}));
        for _ in 0..ops_per {
            let r = rng.gen_range(0..100);
            let (x, y) = if r < 70 && *w > 0 && *h > 0 {
                (rng.gen_range(0..*w), rng.gen_range(0..*h))
            } else {
                match rng.gen_range(0..6) {
                    0 => (*w, 0),
                    1 => (0, *h),
                    2 => (*w, *h),
                    3 => (u32::MAX, 0),
                    4 => (0, u32::MAX),
                    _ => (*w + rng.gen_range(0..9), ((*h + 7) / 8) * 8), // first row beyond the column's last byte
                }
            };
            // rows between height and the next multiple of 8 (unused bits of the last column byte)
            let (x, y) = if r >= 95 && *w > 0 && *h % 8 != 0 { (rng.gen_range(0..*w), rng.gen_range(*h..((*h + 7) / 8) * 8)) } else { (x, y) };
            let op = match rng.gen_range(0..10) {
                0 => json!({"k": "setall", "x": 0, "y": 0, "v": rng.gen_bool(0.5)}),
                1..=6 => json!({"k": "set", "x": x, "y": y, "v": rng.gen_bool(0.6)}),
                _ => json!({"k": "get", "x": x, "y": y, "v": false}),
            };
            let res = apply_op(&mut p, &op);
            // TLC integers are 32-bit signed: coordinates above 2^31-1 are logged as 2^31-1 (out of bounds for every page built here)
            let mut logged = op.clone();
            logged["x"] = json!(x.min(i32::MAX as u32));
            logged["y"] = json!(y.min(i32::MAX as u32));
            out.emit(json!({"e": "op", "op": logged, "res": res, "obs": page_obs(&p)}));
        }
    }
    // pages built from raw bytes whose unused bits (rows height .. next multiple of 8) carry data: whatever they hold, every
    // real pixel obeys the operations (counts, masks or shortcuts taken over whole bytes must not see them)
    let stray_sizes: Vec<(u32, u32)> = sizes.iter().copied().filter(|(w, h)| *w > 0 && *h % 8 != 0 && (*w as u64) * (*h as u64) <= 2000).collect();
    for (k, (w, h)) in stray_sizes.iter().enumerate() {
        out.balance();
        let bpc = ((*h + 7) / 8) as usize;
        let blank = Page::new(PageId(3), *w, *h).as_bytes().to_vec();
        for variant in 0..4usize {
            let mut bytes = blank.clone();
            let d = 1 + (k + variant) % 3;
            // pixel bits
            for x in 0..*w as usize {
                for y in 0..*h as usize {
                    let lit = match variant { 0 | 2 => true, _ => false };
                    if lit {
                        bytes[4 + x * bpc + y / 8] |= 1 << (y % 8);
                    }
                }
            }
            // d dark (or lit) pixels against the grain, and stray unused bits: exactly d of them (variants 0, 1) or all of them (2, 3)
            let mut strays: Vec<(usize, usize)> = vec![];
            for x in 0..*w as usize {
                for y in *h as usize..bpc * 8 {
                    strays.push((x, y));
                }
            }
            for i in 0..d.min((*w * *h) as usize) {
                let (x, y) = (rng.gen_range(0..*w as usize), rng.gen_range(0..*h as usize));
                let _ = i;
                bytes[4 + x * bpc + y / 8] ^= 1 << (y % 8);
            }
            let lit_now = (0..*w as usize).flat_map(|x| (0..*h as usize).map(move |y| (x, y))).filter(|(x, y)| bytes[4 + x * bpc + y / 8] & (1 << (y % 8)) != 0).count();
            let want_strays = match variant { 0 => (*w * *h) as usize - lit_now, 1 => lit_now.max(1), _ => strays.len() };
            for j in 0..want_strays.min(strays.len()) {
                let (x, y) = strays[(j * 7 + k) % strays.len()];
                bytes[4 + x * bpc + y / 8] |= 1 << (y % 8);
            }
            let mut p = match Page::from_bytes(*w, *h, bytes.as_slice()) {
                Ok(p) => p,
                Err(_) => continue,
            };
            out.emit(json!({"e": "page", "borrowed": true, "obs": page_obs(&p)}));
            let first = match variant { 0 | 2 => json!({"k": "setall", "x": 0, "y": 0, "v": true}), 1 => json!({"k": "setall", "x": 0, "y": 0, "v": false}),
                                        _ => json!({"k": "set", "x": rng.gen_range(0..*w), "y": rng.gen_range(0..*h), "v": true}) };
            let mut ops = vec![first];
            for _ in 0..6 {
                ops.push(json!({"k": if rng.gen_bool(0.8) { "set" } else { "setall" }, "x": rng.gen_range(0..*w), "y": rng.gen_range(0..*h), "v": rng.gen_bool(0.5)}));
            }
            for op in ops {
                let res = apply_op(&mut p, &op);
                out.emit(json!({"e": "op", "op": op, "res": res, "obs": page_obs(&p)}));
            }
        }
    }
    out.finish()
}

/// Huge pages (up to millions of rows): the full pixel matrix cannot be projected, so each operation is recorded with
/// the bytes that changed, whether header and padding stayed, and before/after readings of a probe set (the target, its
/// neighbours, pixels 8 / 256 / 2048 / 65536 rows away, the corners, the last row, and random pixels).
fn record_sparse(out: &mut TraceOut, rng: &mut StdRng, w: u32, h: u32, ops: usize) {
    let fresh = match catch(|| Page::new(PageId(9), w, h)) {
        Ok(p) => p,
        Err(_) => {
            out.emit(json!({"e": "sparse", "w": w, "h": h, "op": {"k": "setall", "x": 0, "y": 0, "v": false}, "res": "panic", "nchanged": 0, "changed": [], "probes": [], "hdr_same": true, "pad_same": true, "len_same": true}));
            return;
        }
    };
    let mut p = fresh;
    let db = data_bytes(w, h);
    for k in 0..ops {
        let (x, y) = match k % 6 {
            0 => (w - 1, h - 1),
            1 => (0, h - 1),
            2 => (rng.gen_range(0..w), rng.gen_range(0..h)),
            3 => (rng.gen_range(0..w), h - 1 - rng.gen_range(0..h.min(9))),
            4 => (w.saturating_sub(1), [2048u32, 2049, 4096, 65536, 1 << 20, 1 << 24].iter().copied().filter(|r| *r < h).last().unwrap_or(0)),
            _ => (if k % 12 == 5 { w } else { rng.gen_range(0..w) }, if k % 12 == 5 { 0 } else { h }),
        };
        let op = match k % 5 {
            0 if k > 0 => json!({"k": "setall", "x": 0, "y": 0, "v": k % 10 == 0}),
            4 => json!({"k": "get", "x": x, "y": y, "v": false}),
            _ => json!({"k": "set", "x": x, "y": y, "v": k % 7 != 3}),
        };
        // probe set
        let mut probes: Vec<(u32, u32)> = vec![(0, 0), (w - 1, 0), (0, h - 1), (w - 1, h - 1)];
        if x < w && y < h {
            probes.insert(0, (x, y));
            for d in [1u32, 7, 8, 9, 255, 256, 2047, 2048, 2049, 4096, 65536, 1 << 20, 1 << 24] {
                if y >= d {
                    probes.push((x, y - d));
                }
                if y.checked_add(d).map(|r| r < h).unwrap_or(false) {
                    probes.push((x, y + d));
                }
            }
            // the same row at aliasing distances along x (a column index kept in a narrower integer), and the column's residues
            for d in [7u32, 8, 255, 256, 2048, 4096, 65535, 65536, 65537, 1 << 17, 1 << 20, 1 << 24] {
                if x >= d {
                    probes.push((x - d, y));
                }
                if x.checked_add(d).map(|c| c < w).unwrap_or(false) {
                    probes.push((x + d, y));
                }
            }
            for k in [8u32, 16, 24] {
                if x >> k != 0 {
                    probes.push((x & ((1 << k) - 1), y));
                }
            }
            if x > 0 {
                probes.push((x - 1, y));
                probes.push((x - 1, h - 1));
            }
            if x + 1 < w {
                probes.push((x + 1, y));
                probes.push((x + 1, 0));
            }
        }
        for _ in 0..12 {
            probes.push((rng.gen_range(0..w), rng.gen_range(0..h)));
        }
        probes.dedup();
        let read = |p: &Page<'_>, q: &(u32, u32)| -> i64 { catch(|| p.get_pixel(q.0, q.1)).map(|b| b as i64).unwrap_or(2) };
        let before: Vec<i64> = probes.iter().map(|q| read(&p, q)).collect();
        let old = p.as_bytes().to_vec();
        let res = apply_op(&mut p, &op);
        let new = p.as_bytes();
        let mut changed = vec![];
        let mut nchanged = 0usize;
        if new.len() == old.len() {
            for i in 0..new.len() {
                if new[i] != old[i] {
                    nchanged += 1;
                    if changed.len() < 4 {
                        changed.push(json!([i, old[i], new[i]]));
                    }
                }
            }
        }
        let after: Vec<i64> = probes.iter().map(|q| read(&p, q)).collect();
        let hdr_same = new.len() >= 4 && old.len() >= 4 && new[..4] == old[..4];
        let pad_same = new.len() == old.len() && db <= new.len() && new[db..] == old[db..];
        let mut logged = op.clone();
        logged["x"] = json!(x.min(i32::MAX as u32));
        logged["y"] = json!(y.min(i32::MAX as u32));
        out.emit(json!({"e": "sparse", "w": w, "h": h, "op": logged, "res": res, "nchanged": nchanged, "changed": changed,
                        "probes": probes.iter().zip(before.iter().zip(after.iter())).map(|(q, (b, a))| json!([q.0, q.1, b, a])).collect::<Vec<_>>(),
                        "hdr_same": hdr_same, "pad_same": pad_same, "len_same": new.len() == old.len()}));
    }
}

// ------------------------------------------------------------------ C07

pub fn replay_c07(path: &str) {
    let mut rep = Report::new();
    let mut sizes = 0usize;
    for v in read_lines(path) {
        sizes += 1;
        let w = v["w"].as_u64().unwrap() as u32;
        let h = v["h"].as_u64().unwrap() as u32;
        let total = v["total"].as_u64().unwrap() as usize;
        for id in [v["id"].as_u64().unwrap() as u8, 0, 0x7F, 0x80, 0xFF] {
            let ctx = json!({"w": w, "h": h, "id": id});
            let fresh = Page::new(PageId(id), w, h);
            let mut expect = j::to_bytes(&v["bytes"]);
            expect[0] = id;
            let _ = rep.cmp("Page::new bytes", &ctx, &j::bytes(&expect), &j::bytes(fresh.as_bytes()));
            if id != v["id"].as_u64().unwrap() as u8 {
                continue;
            }
            // each single pixel of a fresh page: exactly one byte changes to the expected value
            for px in v["pix"].as_array().unwrap() {
                let (x, y) = (px["x"].as_u64().unwrap() as u32, px["y"].as_u64().unwrap() as u32);
                let mut p = fresh.clone();
                let pctx = json!({"w": w, "h": h, "x": x, "y": y});
                if catch(|| p.set_pixel(x, y, true)).is_err() {
                    rep.mismatch(json!({"what": "in-bounds set_pixel panicked", "ctx": pctx}));
                    continue;
                }
                let mut e = expect.clone();
                let bi = px["byte"].as_u64().unwrap() as usize;
                e[bi] = px["val"].as_u64().unwrap() as u8;
                let _ = rep.cmp("bytes after setting one pixel", &pctx, &j::bytes(&e), &j::bytes(p.as_bytes()));
            }
            // from_bytes: accepted exactly at the padded size; exposes exactly the bytes given; equals the producing page
            let mut lens = vec![0usize, total, total + 1, total + 15, total + 16, data_bytes(w, h)];
            if total >= 16 {
                lens.push(total - 16);
                lens.push(total - 1);
            }
            for len in lens {
                let mut bytes = expect.clone();
                bytes.resize(len, 0xFF);
                let r = Page::from_bytes(w, h, bytes.as_slice());
                let lctx = json!({"w": w, "h": h, "len": len});
                let _ = rep.cmp("from_bytes accepts", &lctx, &json!(len == total), &json!(r.is_ok()));
                if let Ok(p) = r {
                    let _ = rep.cmp("from_bytes exposes the bytes given", &lctx, &j::bytes(&bytes), &j::bytes(p.as_bytes()));
                    let _ = rep.cmp("from_bytes(page.as_bytes()) == page", &lctx, &json!(true), &json!(len != total || p == fresh));
                }
            }
        }
    }
    rep.finish(json!({"sizes": sizes}));
}

/// Huge pages for C07: the byte image is summarised (length, header, number of non-zero data bytes, padding all 0xFF)
/// instead of being written out; single pixels are recorded through the bytes they change, as for small pages.
fn record_c07_huge(out: &mut TraceOut, rng: &mut StdRng, w: u32, h: u32) {
    let id = 0xC3u8;
    let fresh = match catch(|| Page::new(PageId(id), w, h)) {
        Ok(p) => p,
        Err(_) => {
            out.emit(json!({"e": "newsum", "id": id, "w": w, "h": h, "len": 0, "header": [], "data_nonzero": 0, "pad_ok": false, "rw": 0, "rh": 0, "panic": true}));
            return;
        }
    };
    let b = fresh.as_bytes();
    let db = data_bytes(w, h).min(b.len());
    let nz = b[4.min(b.len())..db].iter().filter(|x| **x != 0).count();
    let pad_ok = b[db..].iter().all(|x| *x == 0xFF);
    out.emit(json!({"e": "newsum", "id": id, "w": w, "h": h, "len": b.len(), "header": j::bytes(&b[..4.min(b.len())]), "data_nonzero": nz, "pad_ok": pad_ok,
                    "rw": fresh.width(), "rh": fresh.height(), "panic": false}));
    let mut coords = vec![(0u32, 0u32), (w - 1, 0), (0, h - 1), (w - 1, h - 1)];
    for _ in 0..12 {
        coords.push((rng.gen_range(0..w), rng.gen_range(0..h)));
    }
    for (x, y) in coords {
        let mut p = fresh.clone();
        if catch(|| p.set_pixel(x, y, true)).is_err() {
            out.emit(json!({"e": "set1", "w": w, "h": h, "x": x, "y": y, "changed": [], "panic": true, "reads": false}));
            continue;
        }
        let changed: Vec<Value> = p.as_bytes().iter().zip(fresh.as_bytes()).enumerate().filter(|(_, (a, b))| a != b).take(8).map(|(i, (a, _))| json!([i, a])).collect();
        let reads = catch(|| p.get_pixel(x, y)).unwrap_or(false);
        out.emit(json!({"e": "set1", "w": w, "h": h, "x": x, "y": y, "changed": changed, "panic": false, "reads": reads}));
    }
    // from_bytes at the padded length and one chunk off it
    let total = fresh.as_bytes().len();
    for len in [total, total + 16, total.saturating_sub(16)] {
        let bytes = vec![0u8; len];
        match catch(|| Page::from_bytes(w, h, bytes).map(|p| p.as_bytes().len())) {
            Ok(Ok(n)) => out.emit(json!({"e": "frombytes", "w": w, "h": h, "len": len, "res": "ok", "expected": 0, "actual": 0, "same_bytes": n == len, "equals_producer": true})),
            Ok(Err(flipdot_core::PageError::WrongPageLength { expected, actual, .. })) => {
                out.emit(json!({"e": "frombytes", "w": w, "h": h, "len": len, "res": "wronglength", "expected": expected, "actual": actual, "same_bytes": true, "equals_producer": true}))
            }
            _ => out.emit(json!({"e": "frombytes", "w": w, "h": h, "len": len, "res": "othererr", "expected": 0, "actual": 0, "same_bytes": true, "equals_producer": true})),
        }
    }
}

/// The first `max` non-zero bytes of a (mostly zero, possibly multi-gigabyte) buffer, block-wise so that the scan vectorises.
fn nonzero(bytes: &[u8], max: usize) -> Vec<(usize, u8)> {
    let mut v = vec![];
    for (bi, block) in bytes.chunks(1 << 16).enumerate() {
        if block.iter().fold(0u8, |a, b| a | *b) == 0 {
            continue;
        }
        for (i, b) in block.iter().enumerate() {
            if *b != 0 {
                v.push(((bi << 16) + i, *b));
                if v.len() >= max {
                    return v;
                }
            }
        }
    }
    v
}

/// Pages of 4 GiB and more (sizes beyond 32 bits): what from_bytes says of the dimensions when offered short buffers
/// (the true size reduced modulo 2^32 and 2^31, one chunk, nothing), and -- when `alloc` -- single pixels of a real page
/// of that size (the buffer is zero pages from the allocator: nothing is touched until a pixel is set).
fn record_c07_wide(out: &mut TraceOut, rng: &mut StdRng, w: u32, h: u32, alloc: bool, npix: usize) {
    let bpc = (h as u64 + 7) / 8;
    let total = (4 + w as u64 * bpc + 15) / 16 * 16;
    let mut lens: Vec<u64> = vec![0, 16, 32, total % (1 << 32), total % (1 << 31), (total % (1 << 32)) + 16, total & 0xFFFF_FFF0, 4096];
    lens.retain(|l| *l <= (1 << 26));
    lens.sort();
    lens.dedup();
    let mut probe = |out: &mut TraceOut, bytes: Vec<u8>| -> Option<Page<'static>> {
        let len = bytes.len() as u64;
        let r = catch(|| Page::from_bytes(w, h, bytes));
        let (res, e, a_, page) = match r {
            Ok(Ok(p)) => ("ok", 0u64, 0u64, Some(p)),
            Ok(Err(flipdot_core::PageError::WrongPageLength { expected, actual, .. })) => ("wronglength", expected as u64, actual as u64, None),
            Ok(Err(_)) => ("othererr", 0, 0, None),
            Err(_) => ("panic", 0, 0, None),
        };
        out.emit(json!({"e": "frombytes_wide", "w": w, "h": h, "len_c": len / 16, "len_r": len % 16, "res": res,
                        "exp_c": e / 16, "exp_r": e % 16, "act_c": a_ / 16, "act_r": a_ % 16}));
        page
    };
    for l in lens {
        let _ = probe(out, vec![0u8; l as usize]);
    }
    if !alloc {
        return;
    }
    let Some(mut p) = probe(out, vec![0u8; total as usize]) else { return };
    let mut coords = vec![(w - 1, h - 1), (w - 1, 0), ((((1u64 << 32) / bpc) as u32).min(w - 1), 0), (0, 0)];
    for _ in 0..npix.saturating_sub(coords.len()) {
        coords.push((rng.gen_range(0..w), rng.gen_range(0..h)));
    }
    coords.truncate(npix.max(1));
    for (x, y) in coords {
        if catch(std::panic::AssertUnwindSafe(|| p.set_pixel(x, y, true))).is_err() {
            out.emit(json!({"e": "set1_wide", "w": w, "h": h, "x": x, "y": y, "changed": [], "panic": true, "reads": false}));
            continue;
        }
        let changed: Vec<Value> = nonzero(p.as_bytes(), 8).into_iter().map(|(i, b)| json!([(i as u64) >> 16, (i as u64) & 0xFFFF, b])).collect();
        let reads = catch(std::panic::AssertUnwindSafe(|| p.get_pixel(x, y))).unwrap_or(false);
        out.emit(json!({"e": "set1_wide", "w": w, "h": h, "x": x, "y": y, "changed": changed, "panic": false, "reads": reads}));
        // back to a blank page for the next pixel
        let _ = catch(std::panic::AssertUnwindSafe(|| p.set_pixel(x, y, false)));
        if !nonzero(p.as_bytes(), 1).is_empty() {
            return; // the page cannot be blanked through its own interface any more: stop (the event above already shows why)
        }
    }
}

/// Pages whose height is close to the largest a u32 can express (a single column of 2^32 - 1 rows is 512 MiB): fresh page,
/// from_bytes at and around the padded length, single pixels in the first and the last rows.
fn record_c07_tall(out: &mut TraceOut, w: u32, h: u32) {
    let (hq, hr) = (h / 8, h % 8);
    let id = 0x5Au8;
    let fresh = match catch(|| Page::new(PageId(id), w, h)) {
        Ok(p) => p,
        Err(_) => {
            out.emit(json!({"e": "tall_new", "w": w, "hq": hq, "hr": hr, "id": id, "len_c": 0, "len_r": 0, "header": [], "first_nonzero": [-1, -1, 0], "panic": true}));
            return;
        }
    };
    let total = fresh.as_bytes().len();
    let first = nonzero(&fresh.as_bytes()[4.min(total)..], 1).first().map(|(i, b)| json!([(i + 4) >> 16, (i + 4) & 0xFFFF, b])).unwrap_or(json!([-1, -1, 0]));
    out.emit(json!({"e": "tall_new", "w": w, "hq": hq, "hr": hr, "id": id, "len_c": total / 16, "len_r": total % 16, "header": j::bytes(&fresh.as_bytes()[..4.min(total)]),
                    "first_nonzero": first, "panic": false}));
    drop(fresh);
    for len in [total, total + 16, total.saturating_sub(16), 16] {
        let r = catch(|| Page::from_bytes(w, h, vec![0u8; len]).map(|_| ()));
        let (res, e, a_) = match r {
            Ok(Ok(())) => ("ok", 0usize, 0usize),
            Ok(Err(flipdot_core::PageError::WrongPageLength { expected, actual, .. })) => ("wronglength", expected, actual),
            Ok(Err(_)) => ("othererr", 0, 0),
            Err(_) => ("panic", 0, 0),
        };
        out.emit(json!({"e": "tall_frombytes", "w": w, "hq": hq, "hr": hr, "len_c": len / 16, "len_r": len % 16, "res": res, "exp_c": e / 16, "exp_r": e % 16, "act_c": a_ / 16, "act_r": a_ % 16}));
    }
    let Ok(Ok(mut p)) = catch(|| Page::from_bytes(w, h, vec![0u8; total])) else { return };
    for (x, y) in [(0u32, 0u32), (0, h - 1), (w.min(3) - 1, h - 1), (w.min(3) - 1, 0), (0, h - 8), (w.min(2) - 1, h / 2)] {
        if catch(std::panic::AssertUnwindSafe(|| p.set_pixel(x, y, true))).is_err() {
            out.emit(json!({"e": "tall_set1", "w": w, "hq": hq, "hr": hr, "x": x, "yq": y / 8, "yr": y % 8, "changed": [], "panic": true, "reads": false}));
            continue;
        }
        let changed: Vec<Value> = nonzero(p.as_bytes(), 8).into_iter().map(|(i, b)| json!([(i as u64) >> 16, (i as u64) & 0xFFFF, b])).collect();
        let reads = catch(std::panic::AssertUnwindSafe(|| p.get_pixel(x, y))).unwrap_or(false);
        out.emit(json!({"e": "tall_set1", "w": w, "hq": hq, "hr": hr, "x": x, "yq": y / 8, "yr": y % 8, "changed": changed, "panic": false, "reads": reads}));
        let _ = catch(std::panic::AssertUnwindSafe(|| p.set_pixel(x, y, false)));
        if !nonzero(p.as_bytes(), 1).is_empty() {
            return;
        }
    }
}

pub fn record_c07(a: &Args) -> usize {
    let thorough = a.tier == "thorough";
    let mut rng = StdRng::seed_from_u64(a.seed ^ 0xC07);
    let mut out = TraceOut::new(&a.out, "C07", a.shards);
    let huge: Vec<(u32, u32)> = if thorough { vec![(1, 16_777_217), (2, 16_777_217), (16, 16_777_225), (70_000, 120), (65_535, 33), (1 << 20, 9), (3, 1 << 25)] } else { vec![(2, 16_777_217), (70_000, 120), (65_535, 33)] };
    for (w, h) in huge {
        out.balance();
        record_c07_huge(&mut out, &mut rng, w, h);
    }
    // pages beyond 4 KiB, 64 KiB and 1 MiB whose header + data end exactly on a 16-byte boundary (no padding at all), and
    // the sizes next to them
    for bpc in [1u32, 2, 3, 4, 5, 7, 13, 52] {
        for floor in [4096u32, 65_536, 1 << 20] {
            let mut w = floor / bpc + 1;
            while (4 + w * bpc) % 16 != 0 {
                w += 1;
            }
            if !thorough && (bpc + floor / 4096) % 3 == 2 {
                continue;
            }
            for ww in [w, w + 1] {
                out.balance();
                record_c07_huge(&mut out, &mut rng, ww, bpc * 8 - (bpc % 3));
            }
        }
    }
    // sizes beyond 32 bits: dimension-only probes always; a real page of 4 GiB + a few KiB with single pixels on both sides
    // of the 2^32-byte mark
    let wide: Vec<(u32, u32, bool)> = if thorough { vec![(1 << 20, 1 << 15, false), (1_048_577, 32_768, true), (3_000_000, 11_500, true), (70_000, 500_000, false), (4_194_303, 8_191, false)] }
                                      else { vec![(1 << 20, 1 << 15, false), (1_048_577, 32_768, true), (70_000, 500_000, false)] };
    for (w, h, alloc) in wide {
        out.balance();
        record_c07_wide(&mut out, &mut rng, w, h, alloc, if thorough { 12 } else { 4 });
    }
    // the tallest pages a u32 height allows (every value of h mod 8 in thorough)
    let tall: Vec<(u32, u32)> = if thorough { (0..8).map(|k| (1 + k % 3, u32::MAX - k)).chain([(2, 1 << 31), (1, (1 << 31) + 1)]).collect() } else { vec![(1, u32::MAX), (2, u32::MAX - 6), (1, u32::MAX - 7)] };
    for (w, h) in tall {
        out.balance();
        record_c07_tall(&mut out, w, h);
    }
    let mut sizes: Vec<(u32, u32)> = ALL_TYPES.iter().map(|t| t.dimensions()).collect();
    sizes.extend_from_slice(&[(0, 0), (0, 1), (1, 0), (12, 8), (13, 8), (6, 16), (4, 20), (28, 1), (28, 8), (5, 17), (5, 24), (5, 25), (3, 33), (1000, 16), (255, 255)]);
    if thorough {
        sizes.extend_from_slice(&[(4096, 8), (65532, 1), (300, 64)]);
        for w in 0..=48 {
            for h in 0..=33 {
                sizes.push((w, h));
            }
        }
    } else {
        for _ in 0..40 {
            sizes.push((rng.gen_range(0..=48), rng.gen_range(0..=33)));
        }
    }
    for (k, (w, h)) in sizes.iter().enumerate() {
        if k % 4 == 0 {
            out.balance();
        }
        // all ids on the small real sizes, a few elsewhere
        let ids: Vec<u8> = if k < 11 && data_bytes(*w, *h) < 120 { (0..=255).collect() } else { vec![0, 1, 0x7F, 0x80, 0xFF, rng.r#gen()] };
        let mut new_panicked = false;
        for id in ids {
            match catch(|| Page::new(PageId(id), *w, *h)) {
                Ok(p) => out.emit(json!({"e": "new", "id": id, "w": w, "h": h, "bytes": j::bytes(p.as_bytes()), "rid": p.id().0, "rw": p.width(), "rh": p.height()})),
                Err(_) => {
                    out.emit(json!({"e": "new", "id": id, "w": w, "h": h, "bytes": [], "rid": 0, "rw": 0, "rh": 0, "panic": true}));
                    new_panicked = true;
                }
            }
        }
        if new_panicked {
            continue;
        }
        let fresh = Page::new(PageId(7), *w, *h);
        let total = fresh.as_bytes().len();
        // a sample of single pixels (all of them for small pages)
        let npix = (*w as u64) * (*h as u64);
        let mut coords: Vec<(u32, u32)> = vec![];
        if npix > 0 {
            if npix <= 300 {
                for x in 0..*w {
                    for y in 0..*h {
                        coords.push((x, y));
                    }
                }
            } else {
                coords.extend_from_slice(&[(0, 0), (*w - 1, 0), (0, *h - 1), (*w - 1, *h - 1)]);
                for _ in 0..40 {
                    coords.push((rng.gen_range(0..*w), rng.gen_range(0..*h)));
                }
            }
        }
        for (x, y) in coords {
            let mut p = fresh.clone();
            if catch(|| p.set_pixel(x, y, true)).is_err() {
                out.emit(json!({"e": "set1", "w": w, "h": h, "x": x, "y": y, "changed": [], "panic": true}));
                continue;
            }
            // positions and new values of all bytes that changed
            let changed: Vec<Value> = p.as_bytes().iter().zip(fresh.as_bytes()).enumerate().filter(|(_, (a, b))| a != b).map(|(i, (a, _))| json!([i, a])).collect();
            out.emit(json!({"e": "set1", "w": w, "h": h, "x": x, "y": y, "changed": changed, "panic": false, "reads": p.get_pixel(x, y)}));
        }
        // from_bytes at candidate lengths
        let mut lens = vec![0usize, total, total + 1, total + 15, total + 16, data_bytes(*w, *h), rng.gen_range(0..total + 40)];
        if total >= 16 {
            lens.push(total - 16);
            lens.push(total - 1);
            lens.push(total - 15);
        }
        for len in lens {
            if len > 200_000 {
                continue;
            }
            let bytes: Vec<u8> = (0..len).map(|i| if i < total { fresh.as_bytes()[i] } else { 0xFF }).collect();
            let owned = k % 2 == 0;
            let r = if owned { Page::from_bytes(*w, *h, bytes.clone()) } else { Page::from_bytes(*w, *h, bytes.as_slice()) };
            match r {
                Ok(p) => out.emit(json!({"e": "frombytes", "w": w, "h": h, "len": len, "res": "ok", "expected": 0, "actual": 0,
                                         "same_bytes": p.as_bytes() == bytes.as_slice(), "equals_producer": len != total || p == fresh})),
                Err(flipdot_core::PageError::WrongPageLength { expected, actual, .. }) => {
                    out.emit(json!({"e": "frombytes", "w": w, "h": h, "len": len, "res": "wronglength", "expected": expected, "actual": actual, "same_bytes": true, "equals_producer": true}))
                }
                Err(_) => out.emit(json!({"e": "frombytes", "w": w, "h": h, "len": len, "res": "othererr", "expected": 0, "actual": 0, "same_bytes": true, "equals_producer": true})),
            }
        }
    }
    out.finish()
}

// ------------------------------------------------------------------ C19

fn decode_type(b: &[u8]) -> Value {
    match catch(|| SignType::from_bytes(b)) {
        Ok(Ok(t)) => json!({"res": format!("{:?}", t), "expected": 0, "actual": 0}),
        Ok(Err(SignTypeError::WrongConfigLength { expected, actual })) => json!({"res": "WrongConfigLength", "expected": expected, "actual": actual}),
        Ok(Err(SignTypeError::UnknownConfig { .. })) => json!({"res": "UnknownConfig", "expected": 0, "actual": 0}),
        Ok(Err(_)) => json!({"res": "OtherError", "expected": 0, "actual": 0}),
        Err(_) => json!({"res": "Panic", "expected": 0, "actual": 0}),
    }
}

/// What a virtual sign derives from a configuration block: it stores a page of w x h and not one that is a chunk shorter.
fn vsign_accepts(block: &[u8], w: u32, h: u32) -> Value {
    let a = Address(5);
    let run = |bytes: Vec<u8>| -> Value {
        let mut s = VirtualSign::new(a, PageFlipStyle::Manual);
        let r = catch(|| {
            let _ = s.process_message(&Message::RequestOperation(a, Operation::ReceiveConfig));
            let _ = s.process_message(&Message::SendData(Offset(0), Data::try_new(block.to_vec()).unwrap()));
            let _ = s.process_message(&Message::DataChunksSent(ChunkCount(1)));
            let _ = s.process_message(&Message::RequestOperation(a, Operation::ReceivePixels));
            let mut n = 0u16;
            for (i, c) in bytes.chunks(16).enumerate() {
                let _ = s.process_message(&Message::SendData(Offset((i * 16) as u16), Data::try_new(c.to_vec()).unwrap()));
                n += 1;
            }
            let _ = s.process_message(&Message::DataChunksSent(ChunkCount(n)));
        });
        if r.is_err() {
            return json!({"stored": -1, "w": 0, "h": 0, "typ": "Panic"});
        }
        let typ = s.sign_type().map(|t| format!("{:?}", t)).unwrap_or("None".into());
        match s.pages().first() {
            Some(p) => json!({"stored": s.pages().len(), "w": p.width(), "h": p.height(), "typ": typ}),
            None => json!({"stored": 0, "w": 0, "h": 0, "typ": typ}),
        }
    };
    // (the page is numbered like the block's family byte, 4 or 8: its first chunk then starts like a configuration block)
    let full = Page::new(PageId(block[0]), w, h).as_bytes().to_vec();
    // the same after the sign has first been offered a doctored block of the same family / id (other size fields), in
    // the same transfer and on a retry after a failed one: what counts is the block that was sent last
    let run_after_doctored = |retry: bool| -> Value {
        let mut doctored = block.to_vec();
        if block[0] == 4 {
            doctored[4] = doctored[4].wrapping_add(2);
            doctored[5] = doctored[5].wrapping_add(3);
        } else {
            doctored[5] = doctored[5].wrapping_add(2);
            doctored[7] = doctored[7].wrapping_add(3);
        }
        let mut s = VirtualSign::new(a, PageFlipStyle::Manual);
        let r = catch(|| {
            let _ = s.process_message(&Message::RequestOperation(a, Operation::ReceiveConfig));
            let _ = s.process_message(&Message::SendData(Offset(0), Data::try_new(doctored.clone()).unwrap()));
            if retry {
                let _ = s.process_message(&Message::DataChunksSent(ChunkCount(7)));
                let _ = s.process_message(&Message::RequestOperation(a, Operation::ReceiveConfig));
                let _ = s.process_message(&Message::SendData(Offset(0), Data::try_new(block.to_vec()).unwrap()));
                let _ = s.process_message(&Message::DataChunksSent(ChunkCount(1)));
            } else {
                let _ = s.process_message(&Message::SendData(Offset(0), Data::try_new(block.to_vec()).unwrap()));
                let _ = s.process_message(&Message::DataChunksSent(ChunkCount(2)));
            }
            let _ = s.process_message(&Message::RequestOperation(a, Operation::ReceivePixels));
            let mut n = 0u16;
            for (i, c) in full.chunks(16).enumerate() {
                let _ = s.process_message(&Message::SendData(Offset((i * 16) as u16), Data::try_new(c.to_vec()).unwrap()));
                n += 1;
            }
            let _ = s.process_message(&Message::DataChunksSent(ChunkCount(n)));
        });
        if r.is_err() {
            return json!({"stored": -1, "w": 0, "h": 0, "typ": "Panic"});
        }
        let typ = s.sign_type().map(|t| format!("{:?}", t)).unwrap_or("None".into());
        match s.pages().first() {
            Some(p) => json!({"stored": s.pages().len(), "w": p.width(), "h": p.height(), "typ": typ}),
            None => json!({"stored": 0, "w": 0, "h": 0, "typ": typ}),
        }
    };
    // the genuine block at offset 0, then 16-byte chunks that look like blocks (same family, other size fields; another
    // supported type's block) at other offsets: only the chunk at offset 0 of a configuration transfer is the block
    let run_with_stray = || -> Value {
        let mut doctored = block.to_vec();
        doctored[4] = doctored[4].wrapping_add(1);
        doctored[5] = doctored[5].wrapping_add(5);
        doctored[7] = doctored[7].wrapping_add(2);
        let other: &[u8] = if block[0] == 4 { SignType::HorizonFront160x16.to_bytes() } else { SignType::Max3000Rear30x10.to_bytes() };
        let mut s = VirtualSign::new(a, PageFlipStyle::Manual);
        let r = catch(|| {
            let _ = s.process_message(&Message::RequestOperation(a, Operation::ReceiveConfig));
            let _ = s.process_message(&Message::SendData(Offset(0), Data::try_new(block.to_vec()).unwrap()));
            let _ = s.process_message(&Message::SendData(Offset(16), Data::try_new(doctored.clone()).unwrap()));
            let _ = s.process_message(&Message::SendData(Offset(0x0100), Data::try_new(other.to_vec()).unwrap()));
            let _ = s.process_message(&Message::SendData(Offset(1), Data::try_new(doctored.clone()).unwrap()));
            let _ = s.process_message(&Message::DataChunksSent(ChunkCount(1)));
            let _ = s.process_message(&Message::RequestOperation(a, Operation::ReceivePixels));
            let mut n = 0u16;
            for (i, c) in full.chunks(16).enumerate() {
                let _ = s.process_message(&Message::SendData(Offset((i * 16) as u16), Data::try_new(c.to_vec()).unwrap()));
                n += 1;
            }
            let _ = s.process_message(&Message::DataChunksSent(ChunkCount(n)));
        });
        if r.is_err() {
            return json!({"stored": -1, "w": 0, "h": 0, "typ": "Panic"});
        }
        let typ = s.sign_type().map(|t| format!("{:?}", t)).unwrap_or("None".into());
        match s.pages().first() {
            Some(p) => json!({"stored": s.pages().len(), "w": p.width(), "h": p.height(), "typ": typ}),
            None => json!({"stored": 0, "w": 0, "h": 0, "typ": typ}),
        }
    };
    let after_stray = run_with_stray();
    let mut short = full.clone();
    short.truncate(full.len().saturating_sub(16));
    let mut long = full.clone();
    long.extend_from_slice(&[0xFF; 16]);
    let after_same = run_after_doctored(false);
    let after_retry = run_after_doctored(true);
    json!({"full": run(full), "short": run(short), "long": run(long), "after_doctored": after_same, "after_doctored_retry": after_retry, "after_stray": after_stray})
}

/// All 2^bits values of the last four bytes behind a fixed 12-byte prefix: acceptance depends on the family and id bytes
/// alone, so every one of them decodes like the block with a zero tail.  Returns (blocks tried, the first few deviants).
fn sweep_tail(prefix: &[u8; 12], bits: u32) -> (u64, Vec<Vec<u8>>) {
    let class = |b: &[u8; 16]| -> (u8, Option<SignType>) {
        match std::panic::catch_unwind(|| SignType::from_bytes(b)) {
            Ok(Ok(t)) => (0, Some(t)),
            Ok(Err(SignTypeError::UnknownConfig { .. })) => (1, None),
            Ok(Err(_)) => (2, None),
            Err(_) => (3, None),
        }
    };
    let mut base = [0u8; 16];
    base[..12].copy_from_slice(prefix);
    let want = class(&base);
    let total: u64 = 1u64 << bits;
    let threads = std::thread::available_parallelism().map(|n| n.get()).unwrap_or(4).min(16) as u64;
    let per = total.div_ceil(threads);
    let deviants = std::sync::Mutex::new(Vec::<Vec<u8>>::new());
    std::thread::scope(|sc| {
        for t in 0..threads {
            let deviants = &deviants;
            let _ = sc.spawn(move || {
                let mut b = base;
                let (lo, hi) = (t * per, ((t + 1) * per).min(total));
                for v in lo..hi {
                    // spread the values over the whole 32-bit range when fewer than 2^32 are tried
                    let tail = if bits >= 32 { v as u32 } else { (v as u32).wrapping_mul(0x9E37_79B1) };
                    b[12..].copy_from_slice(&tail.to_le_bytes());
                    if class(&b) != want {
                        let mut d = deviants.lock().unwrap();
                        if d.len() < 4 {
                            d.push(b.to_vec());
                        }
                    }
                }
            });
        }
    });
    (total, deviants.into_inner().unwrap())
}

pub fn record_c19(a: &Args) -> usize {
    let thorough = a.tier == "thorough";
    let mut rng = StdRng::seed_from_u64(a.seed ^ 0xC19);
    let mut out = TraceOut::new(&a.out, "C19", a.shards.min(if thorough { 16 } else { 2 }));
    // every shard starts with the 11 types (the trace spec builds the set of supported ids from them)
    let shards = a.shards.min(if thorough { 16 } else { 2 });
    let mut pairs: Vec<(u8, u8)> = vec![];
    if thorough {
        for f in 0..=255u8 {
            for i in 0..=255u8 {
                pairs.push((f, i));
            }
        }
    } else {
        for i in 0..=255u8 {
            pairs.push((4, i));
            pairs.push((8, i));
        }
        for f in 0..=255u8 {
            for i in [0x20u8, 0xB4, 0x47] {
                pairs.push((f, i));
            }
        }
        for _ in 0..2000 {
            pairs.push((rng.r#gen(), rng.r#gen()));
        }
    }
    // the supported types are discovered, not assumed: every (family, id) pair is offered to from_bytes once (other bytes
    // zero) and every distinct type that comes back is examined, so a newly added, self-consistent type is not an alarm
    let mut types: Vec<SignType> = ALL_TYPES.to_vec();
    for f in 0..=255u8 {
        for i in 0..=255u8 {
            let mut b = [0u8; 16];
            b[0] = f;
            b[1] = i;
            if let Ok(Ok(t)) = catch(|| SignType::from_bytes(&b)) {
                if !types.contains(&t) {
                    types.push(t);
                }
            }
        }
    }
    let per = (pairs.len() + shards - 1) / shards;
    for sh in 0..shards {
        out.next_shard();
        for t in types.iter().copied() {
            let block = t.to_bytes();
            let (w, h) = t.dimensions();
            out.emit(json!({"e": "type", "name": format!("{:?}", t), "block": j::bytes(block), "w": w, "h": h,
                            "back": decode_type(block), "vsign": vsign_accepts(block, w, h)}));
        }
        if sh == 0 {
            // every value of the last four bytes behind an unsupported pair over a genuine body, behind a supported pair over
            // another type's body, and behind an unsupported pair over zeros (quick: 2^29 values of each, spread evenly)
            let bits = if thorough { 32 } else { 29 };
            let g1 = SignType::Max3000Rear23x10.to_bytes();
            let g2 = SignType::HorizonRear48x16.to_bytes();
            let mut p1 = [0u8; 12];
            p1.copy_from_slice(&g1[..12]);
            p1[0] = 0x10;
            p1[1] = 0xB9;
            let mut p2 = [0u8; 12];
            p2.copy_from_slice(&g2[..12]);
            p2[0] = g1[0];
            p2[1] = g1[1];
            let mut p3 = [0u8; 12];
            p3[0] = 0x04;
            p3[1] = 0x21;
            let prefixes: Vec<[u8; 12]> = if thorough { vec![p1, p2, p3] } else { vec![p1, p3] };
            for pre in prefixes {
                let (n, dev) = sweep_tail(&pre, bits);
                for d in &dev {
                    out.emit(json!({"e": "decode", "bytes": j::bytes(d), "r": decode_type(d)}));
                }
                out.emit(json!({"e": "sweep", "prefix": j::bytes(&pre), "tried": (n >> 10) as u64, "deviants": dev.len()}));
            }
        }
        for (f, i) in pairs.iter().skip(sh * per).take(per) {
            // the other 14 bytes: from a real block, zeros, or random
            let mut b: Vec<u8> = match rng.gen_range(0..3) {
                0 => ALL_TYPES[rng.gen_range(0..11)].to_bytes().to_vec(),
                1 => vec![0; 16],
                _ => (0..16).map(|_| rng.r#gen()).collect(),
            };
            b[0] = *f;
            b[1] = *i;
            out.emit(json!({"e": "decode", "bytes": j::bytes(&b), "r": decode_type(&b)}));
        }
        // field erasure: every genuine block with every small subset (thorough: every subset) of its other 14 bytes forced
        // to 0x00 or 0xFF -- acceptance must depend on the family and id bytes alone, whatever the geometry fields say
        for (ti, t) in types.iter().enumerate() {
            if ti % shards != sh {
                continue;
            }
            let block = t.to_bytes();
            for mask in 0u32..(1 << 14) {
                if !(thorough || mask.count_ones() <= 3 || rng.gen_bool(0.01)) {
                    continue;
                }
                for fill in [0x00u8, 0xFF] {
                    let mut b = block.to_vec();
                    for k in 0..14 {
                        if mask & (1 << k) != 0 {
                            b[2 + k] = fill;
                        }
                    }
                    out.emit(json!({"e": "decode", "bytes": j::bytes(&b), "r": decode_type(&b)}));
                }
            }
            // another id of the same family over this block's body, with bytes 2 and 3 as they are, zeroed or set: only the
            // (family, id) pair decides
            for id in 0..=255u8 {
                if !(thorough || id % 4 == block[1] % 4 || id.abs_diff(block[1]) <= 2) {
                    continue;
                }
                for (b2, b3) in [(block[2], block[3]), (0, 0), (0, block[3]), (0xFF, 0xFF)] {
                    let mut b = block.to_vec();
                    b[1] = id;
                    b[2] = b2;
                    b[3] = b3;
                    out.emit(json!({"e": "decode", "bytes": j::bytes(&b), "r": decode_type(&b)}));
                }
            }
            // the block written out as text (the way a bus log shows it): none of these is 16 bytes long
            for text in [
                block.iter().map(|x| format!("{:02X}", x)).collect::<Vec<_>>().join(" "),
                block.iter().map(|x| format!("{:X}", x)).collect::<Vec<_>>().join(" "),
                block.iter().map(|x| format!("{:02x}", x)).collect::<Vec<_>>().join(""),
                block.iter().map(|x| format!("0x{:02X}", x)).collect::<Vec<_>>().join(", "),
                block.iter().map(|x| format!("{:02X}", x)).collect::<Vec<_>>().join(" ") + "\r\n",
                block.iter().map(|x| format!("{}", x)).collect::<Vec<_>>().join(" "),
                format!("[{}]", block.iter().map(|x| format!("{}", x)).collect::<Vec<_>>().join(", ")),
                block.iter().map(|x| format!("{:02X}", x)).collect::<Vec<_>>().join("\t"),
            ] {
                out.emit(json!({"e": "decode", "bytes": j::bytes(text.as_bytes()), "r": decode_type(text.as_bytes())}));
            }
            // the same geometry written differently: a Max3000 width split differently over the four panels, a Horizon width
            // factored differently into A1*B1 + A2*B2 -- family and id unchanged, so still the same supported type
            if block[0] == 0x04 {
                for from in 0..4usize {
                    for to in 0..4usize {
                        for k in 1..=14u8 {
                            if from != to && block[5 + from] >= k && block[5 + to] <= 255 - k && (thorough || (from + to + k as usize) % 2 == 0) {
                                let mut b = block.to_vec();
                                b[5 + from] -= k;
                                b[5 + to] += k;
                                out.emit(json!({"e": "decode", "bytes": j::bytes(&b), "r": decode_type(&b)}));
                            }
                        }
                    }
                }
            } else if block[0] == 0x08 {
                let wd = block[7] as u32;
                for a1 in 0..=8u32 {
                    for a2 in 0..=8u32 {
                        for b1 in [0u32, 1, 2, 4, 8, 10, 16, 20, 24, 40, 48, 80, wd] {
                            if a1 * b1 > wd || (a2 == 0 && a1 * b1 != wd) {
                                continue;
                            }
                            let rest = wd - a1 * b1;
                            if a2 > 0 && rest % a2 != 0 {
                                continue;
                            }
                            let b2 = if a2 > 0 { rest / a2 } else { 0 };
                            if b2 > 255 {
                                continue;
                            }
                            let mut b = block.to_vec();
                            b[8] = a1 as u8;
                            b[9] = a2 as u8;
                            b[10] = b1 as u8;
                            b[11] = b2 as u8;
                            out.emit(json!({"e": "decode", "bytes": j::bytes(&b), "r": decode_type(&b)}));
                        }
                    }
                }
            }
            // a genuine block followed by padding of every length 1..=48 (and whole further rows) in the fillers a wire or a
            // page would use, and by copies of itself: only length 16 may be accepted
            for pad in (1..=48usize).chain([64, 80, 240, 256]) {
                for fill in [0x00u8, 0xFF, 0x20, 0x0A] {
                    let mut b = block.to_vec();
                    b.extend(std::iter::repeat(fill).take(pad));
                    out.emit(json!({"e": "decode", "bytes": j::bytes(&b), "r": decode_type(&b)}));
                }
                let mut b = block.to_vec();
                while b.len() < 16 + pad {
                    b.push(block[b.len() % 16]);
                }
                out.emit(json!({"e": "decode", "bytes": j::bytes(&b), "r": decode_type(&b)}));
            }
        }
        // every length 0..=40 and lengths that are 16 modulo a power of two, with supported and unsupported leading bytes
        for len in (0..=40usize).chain([48, 64, 127, 128, 144, 255, 256, 257, 271, 272, 273, 528, 4112, 65552]) {
            for variant in 0..3 {
                let mut b: Vec<u8> = (0..len).map(|_| rng.r#gen()).collect();
                if variant > 0 && len >= 2 {
                    let t = ALL_TYPES[rng.gen_range(0..11)].to_bytes();
                    for k in 0..len.min(16) {
                        b[k] = t[k];
                    }
                    if variant == 2 && len > 16 {
                        for x in b.iter_mut().skip(16) {
                            *x = 0;
                        }
                    }
                }
                out.emit(json!({"e": "decode", "bytes": j::bytes(&b), "r": decode_type(&b)}));
            }
        }
    }
    out.finish()
}

#[allow(dead_code)]
fn _u(_: Report) {}
