//! C17: the same controller calls driven (a) directly on a VirtualSignBus and (b) through
//! Sign -> SerialSignBus -> byte stream -> Odk bridge -> VirtualSignBus, single-threaded and deterministic:
//! whenever the controller side has written a complete line, the bridge is pumped.
use std::cell::RefCell;
use std::error::Error;
use std::rc::Rc;

use flipdot::{Address, Page, PageFlipStyle, PageId, Sign, SignType};
use flipdot_core::{Data, Frame, Message, MsgType, SignBus};
use flipdot_serial::SerialSignBus;
use flipdot_testing::{Odk, OdkError, VirtualSign, VirtualSignBus};
use rand::rngs::StdRng;
use rand::{Rng, SeedableRng};
use serde_json::{Value, json};

use crate::ctl::{ALL_TYPES, run_call};
use crate::j;
use crate::serial::{IPort, PortState, target_line};
use crate::util::{Args, TraceOut, catch};
use crate::vsign::{bus_obs, flip_name};

/// The bus behind the bridge: forwards to a shared VirtualSignBus and records what it was asked and what it replied.
struct RecBus {
    inner: Rc<RefCell<VirtualSignBus<'static>>>,
    log: Rc<RefCell<Vec<(Value, Value)>>>,
    entered: Rc<std::cell::Cell<usize>>, // how often the bridge handed a message to the bus (counted before the bus runs)
}

impl SignBus for RecBus {
    fn process_message<'a>(&mut self, message: Message<'_>) -> Result<Option<Message<'a>>, Box<dyn Error + Send + Sync>> {
        let mj = j::msg(&message);
        self.entered.set(self.entered.get() + 1);
        let r = self.inner.borrow_mut().process_message(message)?;
        self.log.borrow_mut().push((mj, j::reply(&r)));
        Ok(r)
    }
}

struct Wire {
    ctl: Rc<RefCell<PortState>>,
    odk_st: Rc<RefCell<PortState>>,
    odk: Rc<RefCell<Odk<IPort, RecBus>>>,
    buslog: Rc<RefCell<Vec<(Value, Value)>>>,
    entered: Rc<std::cell::Cell<usize>>,
    vbus: Rc<RefCell<VirtualSignBus<'static>>>,
    events: Rc<RefCell<Vec<Value>>>,
    n: usize,
}

impl Wire {
    /// Moves what the controller wrote to the bridge's receive side and lets the bridge process every complete line.
    fn pump(&self) {
        {
            let mut c = self.ctl.borrow_mut();
            let mut o = self.odk_st.borrow_mut();
            let tx = std::mem::take(&mut c.tx);
            o.rx.extend(tx);
        }
        loop {
            let before: Vec<u8> = self.odk_st.borrow().rx.iter().copied().collect();
            if !before.contains(&b'\n') {
                break;
            }
            let log0 = self.buslog.borrow().len();
            let entered0 = self.entered.get();
            let obs0 = bus_obs(&self.vbus.borrow(), self.n);
            let r = catch(|| self.odk.borrow_mut().process_message());
            let after_len = self.odk_st.borrow().rx.len();
            let line = before[..before.len() - after_len].to_vec();
            let wrote = std::mem::take(&mut self.odk_st.borrow_mut().tx);
            let fw: Vec<(Value, Value)> = self.buslog.borrow()[log0..].to_vec();
            let res = match &r {
                Ok(Ok(())) => "ok",
                Ok(Err(OdkError::Communication { .. })) => "comm",
                Ok(Err(OdkError::Bus { .. })) => "bus",
                Ok(Err(_)) => "othererr",
                Err(_) => "panic",
            };
            // what the library's own decoder / mapping say of the line, and the bus reply's own wire form
            let direct = catch(|| Frame::from_bytes(&line).map(|f| j::msg(&Message::from(f))));
            let (decodable, direct_msg) = match direct {
                Ok(Ok(m)) => (true, m),
                _ => (false, j::reply(&None)),
            };
            let reply_wire: Vec<u8> = match fw.first() {
                Some((_, r)) if r["k"] != "None" => catch(|| Frame::from(j::msg_from(r)).to_bytes_with_newline()).unwrap_or_default(),
                _ => vec![],
            };
            let write_fault = self.odk_st.borrow().io_log.iter().any(|e| e["e"] == "pw" && e["ret"] == -2);
            self.odk_st.borrow_mut().io_log.clear();
            self.events.borrow_mut().push(json!({"e": "bridge", "line": j::bytes(&line), "res": res, "decodable": decodable, "direct_msg": direct_msg, "write_fault": write_fault, "bus_entered": self.entered.get() > entered0,
                "reply_wire": j::bytes(&reply_wire),
                "forwarded": fw.iter().map(|x| x.0.clone()).collect::<Vec<_>>(), "replies": fw.iter().map(|x| x.1.clone()).collect::<Vec<_>>(),
                "wrote": j::bytes(&wrote), "bus_unchanged": bus_obs(&self.vbus.borrow(), self.n) == obs0}));
            self.ctl.borrow_mut().rx.extend(wrote);
            if line.is_empty() {
                break;
            }
        }
    }
}

fn make_signs(desc: &[(u16, PageFlipStyle)]) -> Vec<VirtualSign<'static>> {
    desc.iter().map(|(a, f)| VirtualSign::new(Address(*a), *f)).collect()
}

fn random_page(rng: &mut StdRng, id: u8, w: u32, h: u32) -> Page<'static> {
    let mut p = Page::new(PageId(id), w, h);
    for _ in 0..rng.gen_range(0..40) {
        p.set_pixel(rng.gen_range(0..w), rng.gen_range(0..h), true);
    }
    p
}

pub fn record_c17(a: &Args) -> usize {
    let thorough = a.tier == "thorough";
    let mut rng = StdRng::seed_from_u64(a.seed ^ 0xC17);
    let mut out = TraceOut::new(&a.out, "C17", a.shards);
    // transfer sizes kept small for the paced path (30 ms per data chunk)
    let small: Vec<SignType> = ALL_TYPES.iter().copied().filter(|t| { let (w, h) = t.dimensions(); 4 + (w as usize) * ((h as usize + 7) / 8) <= 70 }).collect();
    let scenarios = if thorough { 60 } else { 5 };
    for sc in 0..scenarios {
        out.balance();
        let me: u16 = [3u16, 0, 0xFFFF, 0x100, rng.r#gen()][sc % 5];
        let mut desc: Vec<(u16, PageFlipStyle)> = vec![(me, if sc % 2 == 0 { PageFlipStyle::Manual } else { PageFlipStyle::Automatic })];
        if sc % 3 == 1 {
            desc.insert(0, (me.wrapping_add(7), PageFlipStyle::Manual));
        }
        let n = desc.len();
        let typ = small[sc % small.len()];
        let typ2 = small[(sc + 1) % small.len()];
        // the direct twin
        let dbus = Rc::new(RefCell::new(VirtualSignBus::new(make_signs(&desc))));
        // the wire twin
        let vbus = Rc::new(RefCell::new(VirtualSignBus::new(make_signs(&desc))));
        let buslog = Rc::new(RefCell::new(vec![]));
        let entered = Rc::new(std::cell::Cell::new(0usize));
        let odk_st = Rc::new(RefCell::new(PortState::new(target_line())));
        let odk = Rc::new(RefCell::new(Odk::try_new(IPort::new(odk_st.clone()), RecBus { inner: vbus.clone(), log: buslog.clone(), entered: entered.clone() }).expect("odk")));
        let ctl_st = Rc::new(RefCell::new(PortState::new(target_line())));
        let ctl_port = IPort::new(ctl_st.clone());
        let events = Rc::new(RefCell::new(vec![]));
        let wire = Rc::new(Wire { ctl: ctl_st.clone(), odk_st: odk_st.clone(), odk, buslog, entered, vbus: vbus.clone(), events: events.clone(), n });
        {
            let w = wire.clone();
            *ctl_port.pump.borrow_mut() = Some(Box::new(move || w.pump()));
        }
        let sbus = Rc::new(RefCell::new(SerialSignBus::try_new(ctl_port).expect("serial bus")));
        // ports that take only a few bytes per write call, on either side of the wire (legal short writes change nothing)
        let caps: [(Option<usize>, Option<usize>); 5] = [(None, None), (Some(32), None), (None, Some(7)), (Some(1), Some(1)), (Some(46), Some(14))];
        let (ccap, ocap) = caps[(sc / 2 + sc) % 5];
        ctl_st.borrow_mut().write_cap = ccap;
        odk_st.borrow_mut().write_cap = ocap;
        // ... and whose reads and writes are interrupted now and then (EINTR: the call is simply to be repeated)
        let (cint, oint) = [(None, None), (Some(3), None), (None, Some(2)), (Some(7), Some(5)), (Some(2), Some(3))][(sc + sc / 5) % 5];
        ctl_st.borrow_mut().intr_every = cint;
        odk_st.borrow_mut().intr_every = oint;
        out.emit(json!({"e": "twinstart", "me": me, "signs": desc.iter().map(|(a, f)| json!({"addr": a, "flip": flip_name(*f)})).collect::<Vec<_>>()}));

        let flush = |out: &mut TraceOut| {
            for ev in events.borrow_mut().drain(..) {
                out.emit(ev);
            }
        };
        let both = |out: &mut TraceOut, name: &str, t: SignType, pages: &[Page<'static>]| {
            let ds = Sign::new(dbus.clone(), Address(me), t);
            let ws = Sign::new(sbus.clone(), Address(me), t);
            let od = run_call(&ds, name, pages);
            let ow = run_call(&ws, name, pages);
            flush(out);
            out.emit(json!({"e": "twin", "op": name, "typ": format!("{:?}", t), "npages": pages.len(),
                            "direct": {"out": od, "obs": bus_obs(&dbus.borrow(), n)}, "wire": {"out": ow, "obs": bus_obs(&vbus.borrow(), n)}}));
        };
        // raw messages (including frames that are not protocol messages, and maximum-length data) sent through the serial
        // bus on one twin and directly on the other: replies and signs must agree
        let both_raw = |out: &mut TraceOut, msgs: Vec<Message<'static>>| {
            let mut dr = vec![];
            let mut wr = vec![];
            for m in &msgs {
                let d = catch(|| dbus.borrow_mut().process_message(m.clone()).map(|o| o.map(|x| j::msg_from(&j::msg(&x)))).map_err(|e| e.to_string()));
                let w = catch(|| sbus.borrow_mut().process_message(m.clone()).map(|o| o.map(|x| j::msg_from(&j::msg(&x)))).map_err(|e| e.to_string()));
                let f = |r: Result<Result<Option<Message<'static>>, String>, String>| match r {
                    Ok(Ok(x)) => j::reply(&x),
                    Ok(Err(_)) => json!({"k": "Err", "a": 0, "s": "", "t": 0, "d": []}),
                    Err(_) => json!({"k": "Panic", "a": 0, "s": "", "t": 0, "d": []}),
                };
                dr.push(f(d));
                wr.push(f(w));
            }
            flush(out);
            out.emit(json!({"e": "twinraw", "msgs": msgs.iter().map(j::msg).collect::<Vec<_>>(),
                            "direct": {"replies": dr, "obs": bus_obs(&dbus.borrow(), n)}, "wire": {"replies": wr, "obs": bus_obs(&vbus.borrow(), n)}}));
        };
        let (w, h) = typ.dimensions();
        let pages: Vec<Page<'static>> = (0..rng.gen_range(0..=2)).map(|i| random_page(&mut rng, i as u8, w, h)).collect();
        match sc % 4 {
            0 => {
                both(&mut out, "configure", typ, &[]);
                both(&mut out, "send_pages", typ, &pages);
                both(&mut out, "show", typ, &[]);
                both(&mut out, "load", typ, &[]);
                both(&mut out, "configure", typ2, &[]); // re-configuration: the reset dance goes over the wire
                let (w2, h2) = typ2.dimensions();
                both(&mut out, "send_pages", typ2, &[random_page(&mut rng, 9, w2, h2)]);
                both(&mut out, "shut_down", typ2, &[]);
            }
            1 => {
                both(&mut out, "configure_if_needed", typ, &[]);
                both(&mut out, "send_pages", typ, &pages);
                both(&mut out, "configure_if_needed", typ, &[]);
                both(&mut out, "load", typ, &[]);
                both(&mut out, "show", typ, &[]);
                both(&mut out, "show", typ, &[]);
                both(&mut out, "shut_down", typ, &[]);
                both(&mut out, "send_pages", typ, &pages); // after shut-down: must fail the same way on both paths
            }
            2 => {
                both(&mut out, "show", typ, &[]); // before configuration: fails on both paths
                both(&mut out, "configure", typ, &[]);
                both(&mut out, "configure", typ, &[]);
                both(&mut out, "send_pages", typ, &pages);
                both(&mut out, "send_pages", typ, &[]);
            }
            _ => {
                both(&mut out, "configure", typ, &[]);
                // raw frames and lines injected at the bridge: unknown frames are forwarded, invalid lines are communication errors
                let inject: Vec<Vec<u8>> = vec![
                    j::mk_frame(me, 9, &[1, 2, 3]).to_bytes_with_newline(),
                    b":01000502FFFB\r\n".to_vec(),
                    b"garbage\r\n".to_vec(),
                    Frame::new(Address(me), MsgType(2), Data::try_new(vec![0x00]).unwrap()).to_bytes_with_newline(),
                    b"\n".to_vec(),
                    Frame::from(Message::Hello(Address(me.wrapping_add(99)))).to_bytes_with_newline(),
                    // frame-shaped lines whose "digits" are not ASCII (Arabic-Indic, full-width, Devanagari), lower-case hex, NUL
                    ":\u{0660}\u{0661}000302FFFB\r\n".as_bytes().to_vec(),
                    ":01\u{FF10}\u{FF10}0302FFFB\r\n".as_bytes().to_vec(),
                    ":0100030\u{0968}FFFB\r\n".as_bytes().to_vec(),
                    ":\u{FF21}1000302FFFB\r\n".as_bytes().to_vec(),
                    b":01000302fffb\r\n".to_vec(),
                    b":0100\x000302FFFB\r\n".to_vec(),
                    // a complete, checksum-correct frame whose terminator is not exactly CR LF (bare LF, blank before CR LF, doubled CR,
                    // CR LF LF handled as two lines): only ':' ... CR LF is a frame line
                    {
                        let mut t = Frame::from(Message::RequestOperation(Address(me), flipdot_core::Operation::ReceiveConfig)).to_bytes();
                        t.extend_from_slice(b"\n");
                        t
                    },
                    {
                        let mut t = Frame::from(Message::RequestOperation(Address(me), flipdot_core::Operation::ReceiveConfig)).to_bytes();
                        t.extend_from_slice(b" \r\n");
                        t
                    },
                    {
                        let mut t = Frame::from(Message::Hello(Address(me))).to_bytes();
                        t.extend_from_slice(b"\r\r\n");
                        t
                    },
                    {
                        let mut t = Frame::from(Message::Hello(Address(me))).to_bytes();
                        t.extend_from_slice(b"\t\r\n");
                        t
                    },
                    // the heaviest frame there is (every byte 0xFF): a frame that is not a protocol message, to be forwarded
                    crate::codec::seed_encoding(0xFFFF, 0xFF, &[0xFF; 255], true), // (the harness's own encoder)
                    // well-formed hex text with more than 255 data pairs whose length field is the count modulo 256 and whose
                    // checksum is right: no frame can hold it, so it cannot be decoded
                    {
                        let count = 300usize;
                        let mut payload = vec![(count % 256) as u8, (me >> 8) as u8, me as u8, 0x00];
                        payload.extend((0..count).map(|i| (i * 3) as u8));
                        let sum = payload.iter().fold(0u8, |a, &b| a.wrapping_add(b));
                        payload.push(0u8.wrapping_sub(sum));
                        let mut t = vec![b':'];
                        for b in &payload {
                            t.extend_from_slice(format!("{:02X}", b).as_bytes());
                        }
                        t.extend_from_slice(b"\r\n");
                        t
                    },
                ];
                for line in inject {
                    odk_st.borrow_mut().rx.extend(line);
                    wire.pump();
                    ctl_st.borrow_mut().rx.clear();
                    flush(&mut out);
                }
                // the bridge's port refuses one, two, three writes in a row while a reply is due; what is written afterwards
                // must again be exactly the reply to the frame that was just read
                for nfail in [1usize, 2, 3] {
                    odk_st.borrow_mut().fail_writes = nfail;
                    for _ in 0..3 {
                        odk_st.borrow_mut().rx.extend(Frame::from(Message::QueryState(Address(me))).to_bytes_with_newline());
                        wire.pump();
                        ctl_st.borrow_mut().rx.clear();
                        flush(&mut out);
                    }
                    odk_st.borrow_mut().fail_writes = 0;
                    odk_st.borrow_mut().rx.extend(Frame::from(Message::Hello(Address(me.wrapping_add(50)))).to_bytes_with_newline());
                    wire.pump();
                    odk_st.borrow_mut().rx.extend(Frame::from(Message::Hello(Address(me))).to_bytes_with_newline());
                    wire.pump();
                    ctl_st.borrow_mut().rx.clear();
                    flush(&mut out);
                }
                both(&mut out, "send_pages", typ, &pages);
                both(&mut out, "show", typ, &[]);
                // frames that are not protocol messages, and long data chunks, while the sign is in the middle of a transfer
                let ad = Address(me);
                let unk = |t: u8, d: &[u8]| Message::Unknown(Frame::new(ad, MsgType(t), Data::try_new(d.to_vec()).unwrap()));
                both_raw(&mut out, vec![
                    Message::RequestOperation(ad, flipdot_core::Operation::StartReset),
                    Message::RequestOperation(ad, flipdot_core::Operation::FinishReset),
                    Message::RequestOperation(ad, flipdot_core::Operation::ReceiveConfig),
                    unk(1, &[0, 1]),
                    unk(1, &[7]),
                    unk(2, &[0x00, 0x00]),
                    unk(6, &[0x00, 0x01]),
                    unk(9, &[]),
                    Message::SendData(flipdot_core::Offset(0), Data::try_new(typ.to_bytes().to_vec()).unwrap()),
                    unk(1, &[0, 1, 2]),
                    Message::DataChunksSent(flipdot_core::ChunkCount(1)),
                    Message::QueryState(ad),
                    Message::RequestOperation(ad, flipdot_core::Operation::ReceivePixels),
                    Message::SendData(flipdot_core::Offset(0), Data::try_new(vec![0xAA; 255]).unwrap()),
                    Message::SendData(flipdot_core::Offset(255), Data::try_new(vec![0x55; 250]).unwrap()),
                    unk(4, &[0x13, 0x00]),
                    Message::SendData(flipdot_core::Offset(16), Data::try_new(vec![]).unwrap()),
                    Message::SendData(flipdot_core::Offset(17), Data::try_new(vec![9]).unwrap()),
                    Message::DataChunksSent(flipdot_core::ChunkCount(4)),
                    Message::QueryState(ad),
                    Message::Hello(Address(me.wrapping_add(99))),
                ]);
            }
        }
        // break the Rc cycle (port -> pump -> wire -> odk ...)
        *sbus.borrow().port().pump.borrow_mut() = None;
    }
    out.finish()
}
