//! C08 (and the direct half of C17): the real `Sign` driving a real `VirtualSignBus` from arbitrary prior states.
use std::cell::RefCell;
use std::rc::Rc;

use flipdot::{Address, Page, PageFlipStyle, PageId, Sign, SignType};
use flipdot_core::{Message, SignBus};
use flipdot_testing::{VirtualSign, VirtualSignBus};
use rand::rngs::StdRng;
use rand::{Rng, SeedableRng};
use serde_json::json;

use crate::ctl::{ALL_TYPES, run_call};
use crate::j;
use crate::util::{Args, TraceOut, catch, read_lines};
use crate::vsign::{Walker, flip_from, flip_name, obs, type_name};

fn remap(m: &Message<'static>, from_own: u16, from_other: u16, own: u16, other: u16) -> Message<'static> {
    let f = |a: Address| if a.0 == from_own { Address(own) } else if a.0 == from_other { Address(other) } else { a };
    match m {
        Message::Hello(a) => Message::Hello(f(*a)),
        Message::QueryState(a) => Message::QueryState(f(*a)),
        Message::Goodbye(a) => Message::Goodbye(f(*a)),
        Message::PixelsComplete(a) => Message::PixelsComplete(f(*a)),
        Message::RequestOperation(a, o) => Message::RequestOperation(f(*a), *o),
        Message::ReportState(a, s) => Message::ReportState(f(*a), *s),
        Message::AckOperation(a, o) => Message::AckOperation(f(*a), *o),
        other => other.clone(),
    }
}

fn random_page(rng: &mut StdRng, id: u8, w: u32, h: u32) -> Page<'static> {
    if rng.gen_bool(0.15) {
        // a page whose first chunk looks like protocol data: a real configuration block, or such a block behind a page header
        let base = Page::new(PageId(id), w, h);
        let mut bytes = base.as_bytes().to_vec();
        let block = ALL_TYPES[rng.gen_range(0..11)].to_bytes();
        let keep_header = rng.gen_bool(0.5);
        let data_end = 4 + w as usize * ((h as usize + 7) / 8);
        for k in 0..16.min(data_end) {
            if keep_header && k < 4 {
                bytes[k] = [block[0], 0x10, 0, 0][k];
            } else {
                bytes[k] = block[k];
            }
        }
        if let Ok(p) = Page::from_bytes(w, h, bytes) {
            return p;
        }
    }
    if rng.gen_bool(0.2) {
        // a page over raw bytes: random everywhere (header bytes 1..3, unused bits and filler included), or a drawn image whose
        // filler bytes are 0x00 / random instead of 0xFF - the sign keeps whatever bytes it is sent
        let base = Page::new(PageId(id), w, h);
        let mut bytes = base.as_bytes().to_vec();
        let data_end = (4 + w as usize * ((h as usize + 7) / 8)).min(bytes.len());
        match rng.gen_range(0..3) {
            0 => {
                for b in bytes.iter_mut().skip(1) {
                    *b = rng.r#gen();
                }
            }
            1 => {
                for b in bytes[data_end..].iter_mut() {
                    *b = 0;
                }
            }
            _ => {
                for b in bytes[4.min(data_end)..data_end].iter_mut() {
                    *b = rng.r#gen();
                }
                for b in bytes[data_end..].iter_mut() {
                    *b = rng.r#gen();
                }
            }
        }
        if let Ok(p) = Page::from_bytes(w, h, bytes) {
            return p;
        }
    }
    let mut p = Page::new(PageId(id), w, h);
    match rng.gen_range(0..4) {
        0 => {}
        1 => p.set_all_pixels(true),
        _ => {
            let n = rng.gen_range(1..=(w * h).max(1));
            for _ in 0..n.min(400) {
                if w > 0 && h > 0 {
                    p.set_pixel(rng.gen_range(0..w), rng.gen_range(0..h), rng.gen_bool(0.8));
                }
            }
        }
    }
    p
}

fn is_ready(st: &str) -> bool {
    matches!(st, "ConfigReceived" | "ShowingPages" | "PageLoaded" | "PageShowInProgress" | "PageShown" | "PageLoadInProgress")
}

/// Runs a program of controller calls against `bus` (sign 0 is the one under control), emitting call/ret events.
fn run_program(out: &mut TraceOut, rng: &mut StdRng, bus: Rc<RefCell<VirtualSignBus<'static>>>, idx: usize, addr: u16, typ: SignType, typ2: SignType) {
    let emit_call = |out: &mut TraceOut, name: &str, t: SignType, pages: &[Page<'static>]| {
        let (w, h) = t.dimensions();
        out.emit(json!({"e": "call", "name": name, "typ": format!("{:?}", t), "w": w, "h": h,
                        "items": pages.iter().map(|p| j::bytes(p.as_bytes())).collect::<Vec<_>>()}));
    };
    let observe = |bus: &Rc<RefCell<VirtualSignBus<'static>>>| obs(bus.borrow().sign(idx));
    let do_call = |out: &mut TraceOut, sign: &Sign, name: &str, t: SignType, pages: &[Page<'static>]| -> String {
        emit_call(out, name, t, pages);
        let o = run_call(sign, name, pages);
        out.emit(json!({"e": "ret", "out": o, "obs": observe(&bus)}));
        o
    };
    let sign = Sign::new(bus.clone(), Address(addr), typ);
    // entry point: configure, or configure-if-needed when its contract applies
    let before = observe(&bus);
    let applicable = !is_ready(before["st"].as_str().unwrap()) || before["typ"].as_str().unwrap() == format!("{:?}", typ);
    let first = if applicable && rng.gen_bool(0.5) { "configure_if_needed" } else { "configure" };
    if do_call(out, &sign, first, typ, &[]) != "Ok" {
        return;
    }
    let (w, h) = typ.dimensions();
    // now and then a long list: more than 256 pages / more than 64 KiB / more than 4096 chunks in one transfer
    let npages = if rng.gen_range(0..40) == 0 { [200usize, 300, 700][rng.gen_range(0..3)] } else { rng.gen_range(0..=4) };
    let pages: Vec<Page<'static>> = (0..npages).map(|i| random_page(rng, [0xFEu8, 0xFF, 0x00, 0xFF, 0xFF, 0x10, 0x7F][i % 7], w, h)).collect();
    if !do_call(out, &sign, "send_pages", typ, &pages).starts_with("Ok") {
        return;
    }
    for _ in 0..rng.gen_range(0..4) {
        let name = if rng.gen_bool(0.5) { "show" } else { "load" };
        if do_call(out, &sign, name, typ, &[]) != "Ok" {
            return;
        }
    }
    // repeated send
    let pages2: Vec<Page<'static>> = (0..rng.gen_range(0..=3)).map(|i| random_page(rng, i as u8 + 9, w, h)).collect();
    if !do_call(out, &sign, "send_pages", typ, &pages2).starts_with("Ok") {
        return;
    }
    if rng.gen_bool(0.5) {
        let _ = do_call(out, &sign, "configure_if_needed", typ, &[]);
    }
    // re-configuration as a different sign type, then pages of that size
    let sign2 = Sign::new(bus.clone(), Address(addr), typ2);
    if do_call(out, &sign2, "configure", typ2, &[]) != "Ok" {
        return;
    }
    let (w2, h2) = typ2.dimensions();
    let pages3: Vec<Page<'static>> = (0..rng.gen_range(1..=2)).map(|i| random_page(rng, i as u8, w2, h2)).collect();
    if !do_call(out, &sign2, "send_pages", typ2, &pages3).starts_with("Ok") {
        return;
    }
    let _ = do_call(out, &sign2, "show", typ2, &[]);
}

/// Prior states from TLC's state graph of the virtual sign (one witness path per distinct model state).
pub fn record_c08(a: &Args) -> usize {
    let mut out = TraceOut::new(&a.out, "C08", a.shards);
    let thorough = a.tier == "thorough";
    let mut rng = StdRng::seed_from_u64(a.seed ^ 0xC08);
    let mut priors = 0usize;
    let addrs = [3u16, 0, 1, 0x7F, 0xFF, 0x100, 0xFFFF, 0x1234];
    for graph in &a.rest {
        let mut lines = read_lines(graph);
        let header = lines.next().expect("header");
        let alphabet: Vec<Message<'static>> = header["alphabet"].as_array().unwrap().iter().map(j::msg_from).collect();
        let from_own = header["addr"].as_u64().unwrap() as u16;
        let from_other = 4u16;
        let flip = flip_from(header["flip"].as_str().unwrap());
        for (n, v) in lines.enumerate() {
            if n % 8 == 0 {
                out.balance();
            }
            let addr = if n % 9 == 8 { rng.r#gen() } else { addrs[n % 8] };
            let other = addr.wrapping_add(1);
            let mut s = VirtualSign::new(Address(addr), flip);
            let mut fine = true;
            for i in v["path"].as_array().unwrap() {
                let m = remap(&alphabet[i.as_u64().unwrap() as usize - 1], from_own, from_other, addr, other);
                if catch(|| s.process_message(&m)).is_err() {
                    fine = false;
                    break;
                }
            }
            if !fine {
                continue; // a crash on the way is C12's finding
            }
            priors += 1;
            out.emit(json!({"e": "prior", "addr": addr, "flip": flip_name(flip), "obs": obs(&s), "path_len": v["path"].as_array().unwrap().len()}));
            // a bystander sign on the same bus must not matter: fresh, or itself left in some state by earlier traffic
            // (abandoned in the middle of a transfer, say), behind or in front of the sign under control
            let mut signs = vec![s];
            let mut idx = 0usize;
            if n % 3 == 0 {
                let mut by = VirtualSign::new(Address(other), PageFlipStyle::Manual);
                if n % 2 == 1 {
                    let pre: Vec<Message<'static>> = match (n / 6) % 4 {
                        0 => vec![Message::RequestOperation(Address(other), flipdot_core::Operation::ReceiveConfig)],
                        1 => vec![Message::RequestOperation(Address(other), flipdot_core::Operation::ReceiveConfig),
                                  Message::SendData(flipdot_core::Offset(0), flipdot_core::Data::try_new(ALL_TYPES[n % 11].to_bytes().to_vec()).unwrap()),
                                  Message::DataChunksSent(flipdot_core::ChunkCount(1)), Message::RequestOperation(Address(other), flipdot_core::Operation::ReceivePixels)],
                        2 => vec![Message::RequestOperation(Address(other), flipdot_core::Operation::ReceiveConfig),
                                  Message::SendData(flipdot_core::Offset(0), flipdot_core::Data::try_new(ALL_TYPES[(n + 3) % 11].to_bytes().to_vec()).unwrap()),
                                  Message::DataChunksSent(flipdot_core::ChunkCount(1)), Message::RequestOperation(Address(other), flipdot_core::Operation::ReceivePixels),
                                  Message::SendData(flipdot_core::Offset(0), flipdot_core::Data::try_new(vec![7u8; 16]).unwrap())],
                        _ => vec![Message::Hello(Address(other))],
                    };
                    for m in &pre {
                        let _ = catch(std::panic::AssertUnwindSafe(|| by.process_message(m)));
                    }
                }
                if (n / 3) % 2 == 1 {
                    signs.insert(0, by);
                    idx = 1;
                } else {
                    signs.push(by);
                }
            }
            let bus = Rc::new(RefCell::new(VirtualSignBus::new(signs)));
            let typ = ALL_TYPES[n % 11];
            let typ2 = ALL_TYPES[(n / 11 + n + 1) % 11];
            run_program(&mut out, &mut rng, bus, idx, addr, typ, typ2);
        }
    }
    // prior states from random walks over the wide alphabet (real sizes, half-finished transfers)
    let walks = if thorough { 3000 } else { 150 };
    for w in 0..walks {
        if w % 4 == 0 {
            out.balance();
        }
        let addr: u16 = if w % 5 == 0 { rng.r#gen() } else { addrs[w % 8] };
        let flip = if w % 2 == 0 { PageFlipStyle::Manual } else { PageFlipStyle::Automatic };
        let mut s = VirtualSign::new(Address(addr), flip);
        let mut walker = Walker { rng: StdRng::seed_from_u64(rng.r#gen()), own: vec![addr], foreign: addr.wrapping_add(1), cfg_dims: None, doctored: false };
        let (mut sent, mut chunks) = (0usize, 0u32);
        let steps = rng.gen_range(0..120);
        let mut fine = true;
        for _ in 0..steps {
            let m = walker.next(s.state(), s.sign_type().map(|t| t.dimensions()), &mut sent, &mut chunks);
            if catch(|| s.process_message(&m)).is_err() {
                fine = false;
                break;
            }
        }
        if !fine {
            continue;
        }
        priors += 1;
        out.emit(json!({"e": "prior", "addr": addr, "flip": flip_name(flip), "obs": obs(&s), "path_len": steps}));
        let bus = Rc::new(RefCell::new(VirtualSignBus::new(vec![s])));
        run_program(&mut out, &mut rng, bus, 0, addr, ALL_TYPES[w % 11], ALL_TYPES[(w * 7 + 3) % 11]);
    }
    // very long lists: chunk totals just below, at and just above 2^16 (every 16-bit counter on the way wraps there), for
    // every sign type; recorded as a digest (number of pages, index of the first page that differs from what was sent)
    let mut big = 0usize;
    for (ti, typ) in ALL_TYPES.iter().enumerate() {
        let (w, h) = typ.dimensions();
        let cpp = (Page::new(PageId(0), w, h).as_bytes().len() + 15) / 16;
        let at = (65536 + cpp - 1) / cpp;
        let mut counts = vec![at - 1, at, at + 1];
        if thorough {
            counts.extend_from_slice(&[2 * 65536 / cpp, 2 * 65536 / cpp + 1]);
        } else if ti % 4 != (a.seed as usize) % 4 && 65536 % cpp != 0 {
            continue; // quick: the types whose pages divide 2^16 exactly, and a rotating quarter of the others
        }
        for (ci, n) in counts.into_iter().enumerate() {
            out.balance();
            let addr = addrs[(ti + ci) % 8];
            let flip = if (ti + ci) % 2 == 0 { PageFlipStyle::Manual } else { PageFlipStyle::Automatic };
            let bus = Rc::new(RefCell::new(VirtualSignBus::new(vec![VirtualSign::new(Address(addr), flip)])));
            let sign = Sign::new(bus.clone(), Address(addr), *typ);
            out.emit(json!({"e": "prior", "addr": addr, "flip": flip_name(flip), "obs": obs(bus.borrow().sign(0)), "path_len": 0}));
            out.emit(json!({"e": "call", "name": "configure", "typ": format!("{:?}", typ), "w": w, "h": h, "items": []}));
            let o = run_call(&sign, "configure", &[]);
            out.emit(json!({"e": "ret", "out": o, "obs": obs(bus.borrow().sign(0))}));
            let pages: Vec<Page<'static>> = (0..n)
                .map(|i| {
                    let mut p = Page::new(PageId((i % 251) as u8), w, h);
                    p.set_pixel((i as u32) % w, ((i / w as usize) as u32) % h, true);
                    p.set_pixel(((i >> 8) as u32) % w, h - 1, true);
                    p
                })
                .collect();
            out.emit(json!({"e": "bigcall", "name": "send_pages", "typ": format!("{:?}", typ), "w": w, "h": h, "n": n, "chunks": n * cpp}));
            let o = run_call(&sign, "send_pages", &pages);
            let b = bus.borrow();
            let sg = b.sign(0);
            let stored = sg.pages();
            let first_diff = (0..stored.len().max(pages.len())).find(|&i| i >= stored.len() || i >= pages.len() || stored[i].as_bytes() != pages[i].as_bytes()
                || stored[i].width() != w || stored[i].height() != h).map(|i| i as i64).unwrap_or(-1);
            out.emit(json!({"e": "bigret", "out": o, "st": j::state_name(sg.state()), "typ": type_name(sg.sign_type()), "n_pages": stored.len(), "first_diff": first_diff}));
            big += 1;
        }
    }
    println!("INFO {}", json!({"prior_states": priors, "big_sends": big}));
    let _ = type_name(None);
    out.finish()
}

/// Specification growth: the public API around the protocol (Sign accessors, create_page, Frame accessors, Data::try_new)
/// and the call sequence of examples/send_pages.rs for every sign type, flip style and a few addresses.
pub fn record_api(a: &Args) -> usize {
    use flipdot_core::{Data, Frame, MsgType};
    let mut out = TraceOut::new(&a.out, "API", a.shards);
    let mut rng = StdRng::seed_from_u64(a.seed ^ 0xA91);
    let addrs = [3u16, 0, 0xFFFF, 0x100];
    for (ti, typ) in ALL_TYPES.iter().enumerate() {
        for (fi, flip) in [PageFlipStyle::Manual, PageFlipStyle::Automatic].into_iter().enumerate() {
            out.balance();
            let addr = addrs[(ti + fi) % 4];
            let bus = Rc::new(RefCell::new(VirtualSignBus::new(vec![VirtualSign::new(Address(addr), flip)])));
            let sign = Sign::new(bus.clone(), Address(addr), *typ);
            out.emit(json!({"e": "sign", "typ": format!("{:?}", typ), "addr": addr, "w": sign.width(), "h": sign.height(),
                            "rtyp": format!("{:?}", sign.sign_type()), "raddr": sign.address().0}));
            out.emit(json!({"e": "prior", "addr": addr, "flip": flip_name(flip), "obs": obs(bus.borrow().sign(0)), "path_len": 0}));
            let (w, h) = typ.dimensions();
            let call = |out: &mut TraceOut, name: &str, pages: &[Page<'static>]| -> String {
                out.emit(json!({"e": "call", "name": name, "typ": format!("{:?}", typ), "w": w, "h": h, "items": pages.iter().map(|p| j::bytes(p.as_bytes())).collect::<Vec<_>>()}));
                let o = run_call(&sign, name, pages);
                out.emit(json!({"e": "ret", "out": o, "obs": obs(bus.borrow().sign(0))}));
                o
            };
            call(&mut out, "configure", &[]);
            let mut pages = vec![];
            for (pi, id) in [0u8, 1, rng.r#gen()].into_iter().enumerate() {
                let mut p = sign.create_page(PageId(id));
                out.emit(json!({"e": "mkpage", "typ": format!("{:?}", typ), "id": id, "w": p.width(), "h": p.height(), "bytes": j::bytes(p.as_bytes())}));
                for x in 0..p.width() {
                    for y in 0..p.height() {
                        p.set_pixel(x, y, if pi == 0 { x % 4 == y % 4 } else { (x + y) % 5 > 2 });
                    }
                }
                if pi < 2 {
                    pages.push(p);
                }
            }
            let o = call(&mut out, "send_pages", &pages);
            if o == "Ok:Manual" {
                call(&mut out, "show", &[]);
                call(&mut out, "load", &[]);
                call(&mut out, "show", &[]);
            }
        }
    }
    // Frame::new and its accessors; Data::try_new at and around the 255-byte limit
    for len in (0..=16usize).chain([17, 100, 254, 255]) {
        let d: Vec<u8> = (0..len).map(|_| rng.r#gen()).collect();
        let (ad, t): (u16, u8) = (rng.r#gen(), rng.r#gen());
        let f = Frame::new(Address(ad), MsgType(t), Data::try_new(d.clone()).unwrap());
        out.emit(json!({"e": "frameapi", "addr": ad, "t": t, "data": j::bytes(&d), "r_addr": f.address().0, "r_t": f.message_type().0,
                        "r_data": j::bytes(f.data()), "r_into": j::bytes(f.clone().into_data().get())}));
    }
    for len in [0usize, 1, 254, 255, 256, 257, 511, 512, 65535, 65536, 65791, 1 << 20] {
        let ok = matches!(catch(|| Data::try_new(vec![0xA5u8; len]).is_ok()), Ok(true));
        out.emit(json!({"e": "datatry", "len": len, "ok": ok}));
        let okb = matches!(catch(|| { let v = vec![0x5Au8; len]; Data::try_new(v.as_slice()).is_ok() }), Ok(true));
        out.emit(json!({"e": "datatry", "len": len, "ok": okb}));
    }
    out.finish()
}

#[allow(dead_code)]
fn _unused(b: &mut VirtualSignBus<'static>) {
    let _ = b.process_message(Message::Hello(Address(0)));
}
