//! C12, C13, C14: the virtual sign and the virtual bus.
//!  * replay: TLC's state graph of spec/VirtualSign.tla ({path, obs, idx, edges} per state) is driven into real
//!    `VirtualSign`s: path, projection, then every alphabet message on a clone.
//!  * record: breadth-first search over the real implementation's own (Hash/Eq) state, written as a tree-shaped
//!    trace (down/up/probe events), and long random walks; TLC validates every event against the spec.
use std::collections::{HashMap, VecDeque};

use flipdot_core::{Address, ChunkCount, Data, Frame, Message, MsgType, Offset, Operation, PageFlipStyle, SignBus, SignType, State};
use flipdot_testing::{VirtualSign, VirtualSignBus};
use rand::rngs::StdRng;
use rand::{Rng, SeedableRng};
use serde_json::{Value, json};

use crate::j;
use crate::util::{Args, Report, TraceOut, catch, logging, read_lines};

pub fn flip_name(f: PageFlipStyle) -> &'static str {
    match f {
        PageFlipStyle::Automatic => "Automatic",
        PageFlipStyle::Manual => "Manual",
    }
}
pub fn flip_from(s: &str) -> PageFlipStyle {
    if s == "Automatic" { PageFlipStyle::Automatic } else { PageFlipStyle::Manual }
}

pub fn type_name(t: Option<SignType>) -> String {
    match t {
        Some(t) => format!("{:?}", t),
        None => "None".to_string(),
    }
}

/// What the public accessors expose.
pub fn obs(s: &VirtualSign<'_>) -> Value {
    let pages: Vec<Value> = s.pages().iter().map(|p| json!({"w": p.width(), "h": p.height(), "bytes": j::bytes(p.as_bytes())})).collect();
    json!({"st": j::state_name(s.state()), "typ": type_name(s.sign_type()), "pages": pages})
}

fn panic_reply() -> Value {
    json!({"k": "Panic", "a": 0, "s": "", "t": 0, "d": []})
}

/// Applies a message; a panic becomes (reply "Panic", None).
fn apply(s: &mut VirtualSign<'static>, m: &Message<'static>) -> (Value, bool) {
    match catch(|| s.process_message(m)) {
        Ok(r) => (j::reply(&r), true),
        Err(_) => (panic_reply(), false),
    }
}

// ------------------------------------------------------------------ G: replay the spec's state graph

pub fn replay_graph(path: &str, panic_only: bool) {
    let mut rep = Report::new();
    let mut lines = read_lines(path);
    let header = lines.next().expect("header line");
    let alphabet: Vec<Message<'static>> = header["alphabet"].as_array().unwrap().iter().map(j::msg_from).collect();
    let addr = Address(header["addr"].as_u64().unwrap() as u16);
    let flip = flip_from(header["flip"].as_str().unwrap());
    let mut states = 0usize;
    let mut transitions = 0usize;
    for v in lines {
        states += 1;
        let pathv: Vec<usize> = v["path"].as_array().unwrap().iter().map(|x| x.as_u64().unwrap() as usize).collect();
        let ctx = json!({"path": v["path"], "addr": addr.0, "flip": flip_name(flip)});
        let mut s = VirtualSign::new(addr, flip);
        let mut ok = true;
        for &i in &pathv {
            let (_, fine) = apply(&mut s, &alphabet[i - 1]);
            if !fine {
                rep.mismatch(json!({"what": "panic on witness path", "ctx": ctx, "at": i}));
                ok = false;
                break;
            }
        }
        if !ok {
            continue;
        }
        if !panic_only {
            let _ = rep.cmp("projection after path", &ctx, &v["obs"], &obs(&s));
        }
        let idx: Vec<usize> = v["idx"].as_array().unwrap().iter().map(|x| x.as_u64().unwrap() as usize).collect();
        let edges = v["edges"].as_array().unwrap();
        let before = obs(&s);
        for (k, m) in alphabet.iter().enumerate() {
            transitions += 1;
            let mut c = s.clone();
            let (r, fine) = apply(&mut c, m);
            let ectx = json!({"path": v["path"], "then": k + 1, "msg": j::msg(m), "addr": addr.0, "flip": flip_name(flip)});
            if !fine {
                rep.mismatch(json!({"what": "panic", "ctx": ectx}));
                continue;
            }
            if panic_only {
                rep.ok();
                continue;
            }
            let (er, eo) = match idx.iter().position(|&x| x == k + 1) {
                Some(p) => (edges[p]["r"].clone(), edges[p]["obs"].clone()),
                None => (j::reply(&None), before.clone()),
            };
            let _ = rep.cmp("reply", &ectx, &er, &r);
            let _ = rep.cmp("projection after step", &ectx, &eo, &obs(&c));
        }
    }
    rep.finish(json!({"states": states, "transitions": transitions, "alphabet": alphabet.len()}));
}

// ------------------------------------------------------------------ V: BFS over the real implementation

fn cfg_tiny() -> Vec<u8> {
    vec![4, 1, 0, 0, 8, 8, 0, 0, 0, 8, 0, 0, 0, 0, 0, 0]
}
fn cfg_horizon() -> Vec<u8> {
    vec![8, 2, 0, 0, 0, 16, 0, 8, 1, 0, 8, 0, 0, 0, 0, 0]
}

fn sd(off: u16, d: &[u8]) -> Message<'static> {
    Message::SendData(Offset(off), Data::try_new(d.to_vec()).unwrap())
}

fn bfs_alphabet(own: u16, other: u16, thorough: bool) -> Vec<Message<'static>> {
    let mut v = vec![
        Message::Hello(Address(own)),
        Message::QueryState(Address(own)),
        Message::Goodbye(Address(own)),
        Message::PixelsComplete(Address(own)),
        Message::Hello(Address(other)),
        Message::Goodbye(Address(other)),
        Message::PixelsComplete(Address(other)),
    ];
    for o in j::OPS {
        v.push(Message::RequestOperation(Address(own), o));
    }
    v.push(Message::RequestOperation(Address(other), Operation::StartReset));
    v.push(Message::RequestOperation(Address(other), Operation::ReceivePixels));
    for n in 0..=(if thorough { 4 } else { 2 }) {
        v.push(Message::DataChunksSent(ChunkCount(n)));
    }
    let chunk_a: Vec<u8> = vec![1, 16, 0, 0, 1, 2, 3, 4, 5, 6, 7, 8, 255, 255, 255, 255];
    let chunk_b: Vec<u8> = (17..33).collect();
    let mut datas: Vec<Vec<u8>> = vec![cfg_tiny(), chunk_a, vec![9, 8, 7]];
    if thorough {
        datas.push(cfg_horizon());
        datas.push(chunk_b);
        datas.push(SignType::Max3000Dash30x7.to_bytes().to_vec());
        datas.push(vec![5, 32, 0, 6, 7, 30, 30, 30, 0, 8, 0, 0, 0, 0, 0, 0]);
        datas.push(vec![4, 153, 0, 0, 7, 200, 200, 0, 0, 8, 0, 0, 0, 0, 0, 0]);
        datas.push(vec![]);
    }
    for d in &datas {
        v.push(sd(0, d));
        v.push(sd(16, d));
    }
    v.push(Message::ReportState(Address(own), State::PageLoaded));
    v.push(Message::AckOperation(Address(own), Operation::ReceivePixels));
    v.push(Message::Unknown(Frame::new(Address(own), MsgType(7), Data::try_new(vec![1, 2, 3]).unwrap())));
    v
}

struct Node {
    sign: VirtualSign<'static>,
    parent: Option<(usize, usize)>, // (parent node, alphabet index)
    depth: usize,
    sd_run: usize, // SendData messages on the path since the transfer started
    children: Vec<(usize, usize)>, // (alphabet index, child node)
}

fn is_transfer_boundary(m: &Message<'_>) -> bool {
    matches!(m, Message::DataChunksSent(_) | Message::RequestOperation(_, _) | Message::Goodbye(_))
}

fn probe_event(kind: &str, s: &VirtualSign<'static>, m: &Message<'static>) -> (Value, Option<VirtualSign<'static>>) {
    let mut c = s.clone();
    let (r, fine) = apply(&mut c, m);
    let o = if fine { obs(&c) } else { json!({"st": "Panic", "typ": "None", "pages": []}) };
    (json!({"e": kind, "m": j::msg(m), "r": r, "obs": o}), if fine { Some(c) } else { None })
}

pub fn record_c13_bfs(a: &Args, out: &mut TraceOut) -> Value {
    let thorough = a.tier == "thorough";
    let max_sd = if thorough { 4 } else { 3 };
    let max_pages = if thorough { 2 } else { 1 };
    let max_nodes = if thorough { 400_000 } else { 6_000 };
    let mut total_nodes = 0usize;
    let mut total_edges = 0usize;
    let mut rejoins = 0usize;
    let mut rejoin_budget = if thorough { 120_000usize } else { 20_000 };
    let configs: Vec<(u16, u16, PageFlipStyle)> =
        vec![(3, 4, PageFlipStyle::Manual), (0xFFFF, 0, PageFlipStyle::Automatic), (0x0012, 0x8012, PageFlipStyle::Manual)];
    for (own, other, flip) in configs {
        let alphabet = bfs_alphabet(own, other, thorough);
        let mut nodes: Vec<Node> = vec![Node { sign: VirtualSign::new(Address(own), flip), parent: None, depth: 0, sd_run: 0, children: vec![] }];
        let mut index: HashMap<VirtualSign<'static>, usize> = HashMap::new();
        let _ = index.insert(nodes[0].sign.clone(), 0);
        let mut queue: VecDeque<usize> = VecDeque::new();
        queue.push_back(0);
        while let Some(n) = queue.pop_front() {
            if nodes.len() >= max_nodes {
                break;
            }
            for (k, m) in alphabet.iter().enumerate() {
                let is_sd = matches!(m, Message::SendData(_, _));
                if is_sd && nodes[n].sd_run >= max_sd {
                    continue;
                }
                let mut c = nodes[n].sign.clone();
                let (_, fine) = apply(&mut c, m);
                if !fine || c.pages().len() > max_pages {
                    continue;
                }
                if !index.contains_key(&c) {
                    let id = nodes.len();
                    let sd_run = if is_sd { nodes[n].sd_run + 1 } else if is_transfer_boundary(m) { 0 } else { nodes[n].sd_run };
                    let depth = nodes[n].depth + 1;
                    nodes.push(Node { sign: c.clone(), parent: Some((n, k)), depth, sd_run, children: vec![] });
                    let _ = index.insert(c, id);
                    nodes[n].children.push((k, id));
                    queue.push_back(id);
                }
            }
        }
        // choose the depth at which subtrees become trace segments
        let want = a.shards * 6;
        let mut d = 0;
        loop {
            let cnt = nodes.iter().filter(|n| n.depth == d).count();
            if cnt >= want || cnt == 0 || d >= 6 {
                break;
            }
            d += 1;
        }
        let path_to = |nodes: &Vec<Node>, mut n: usize| -> Vec<usize> {
            let mut p = vec![];
            while let Some((par, k)) = nodes[n].parent {
                p.push(k);
                n = par;
            }
            p.reverse();
            p
        };
        for root in 0..nodes.len() {
            if nodes[root].depth > d {
                continue;
            }
            out.balance();
            out.emit(json!({"e": "reset", "addr": own, "flip": flip_name(flip)}));
            // replay the path to the segment root (advancing steps)
            let mut s = VirtualSign::new(Address(own), flip);
            for k in path_to(&nodes, root) {
                let (ev, next) = probe_event("step", &s, &alphabet[k]);
                out.emit(ev);
                s = next.expect("path replays without panic");
            }
            // depth-first over the subtree (only below depth d), probing every alphabet message at every node
            let descend = nodes[root].depth == d;
            let mut stack: Vec<(usize, usize)> = vec![(root, 0)]; // (node, next child position)
            let mut first_visit = true;
            while let Some(&(n, ci)) = stack.last() {
                if first_visit {
                    total_nodes += 1;
                    for m in alphabet.iter() {
                        let (ev, _) = probe_event("probe", &nodes[n].sign, m);
                        out.emit(ev);
                        total_edges += 1;
                    }
                    // edges that rejoin an implementation state found earlier along another path: the specification's state after
                    // this path need not be the one after that path (its hidden counter and size are inferred, not observed), so
                    // every alphabet message is probed behind each such edge as well
                    if rejoin_budget > 0 {
                        for (k, m) in alphabet.iter().enumerate() {
                            if nodes[n].children.iter().any(|(ck, _)| *ck == k) {
                                continue;
                            }
                            let mut c = nodes[n].sign.clone();
                            let (_, fine) = apply(&mut c, m);
                            if !fine || c == nodes[n].sign || c.pages().len() > max_pages || rejoin_budget == 0 {
                                continue;
                            }
                            rejoin_budget -= 1;
                            let (ev, _) = probe_event("down", &nodes[n].sign, m);
                            out.emit(ev);
                            for m2 in alphabet.iter() {
                                let (ev, _) = probe_event("probe", &c, m2);
                                out.emit(ev);
                                total_edges += 1;
                            }
                            out.emit(json!({"e": "up"}));
                            rejoins += 1;
                        }
                    }
                }
                if descend && ci < nodes[n].children.len() {
                    let (k, child) = nodes[n].children[ci];
                    stack.last_mut().unwrap().1 += 1;
                    let (ev, _) = probe_event("down", &nodes[n].sign, &alphabet[k]);
                    out.emit(ev);
                    stack.push((child, 0));
                    first_visit = true;
                } else {
                    let _ = stack.pop();
                    if !stack.is_empty() {
                        out.emit(json!({"e": "up"}));
                    }
                    first_visit = false;
                }
            }
        }
    }
    json!({"impl_states": total_nodes, "impl_transitions": total_edges, "rejoining_edges_probed": rejoins})
}

// ------------------------------------------------------------------ random walks over the wide alphabet

pub struct Walker {
    pub rng: StdRng,
    pub own: Vec<u16>,
    pub foreign: u16,
    /// dimensions (per the documented block layout) of the last configuration block this walker sent
    pub cfg_dims: Option<(u32, u32)>,
    /// whether the walker may send "doctored" blocks: a supported (family, id) with altered size fields.  Such a sign
    /// reports a known type while holding other dimensions; C08's configure-if-needed clause is not quantified over that.
    pub doctored: bool,
}

/// Width and height a configuration block describes, per the documented layout (None for other families).
pub fn documented_dims(b: &[u8]) -> Option<(u32, u32)> {
    if b.len() != 16 {
        return None;
    }
    match b[0] {
        4 => Some((b[5] as u32 + b[6] as u32 + b[7] as u32 + b[8] as u32, b[4] as u32)),
        8 => Some((b[7] as u32, b[5] as u32)),
        _ => None,
    }
}

impl Walker {
    fn rand_cfg(&mut self) -> Vec<u8> {
        let b = self.rand_cfg_any();
        if !self.doctored {
            // a block with a supported (family, id) is only sent in its real form
            if let Ok(t) = SignType::from_bytes(&b) {
                return t.to_bytes().to_vec();
            }
        }
        b
    }

    fn rand_cfg_any(&mut self) -> Vec<u8> {
        let rng = &mut self.rng;
        match rng.gen_range(0..10) {
            0..=3 => {
                let all = [
                    SignType::Max3000Front112x16,
                    SignType::Max3000Front98x16,
                    SignType::Max3000Side90x7,
                    SignType::Max3000Rear30x10,
                    SignType::Max3000Rear23x10,
                    SignType::Max3000Dash30x7,
                    SignType::HorizonFront160x16,
                    SignType::HorizonFront140x16,
                    SignType::HorizonSide96x8,
                    SignType::HorizonRear48x16,
                    SignType::HorizonDash40x12,
                ];
                all[rng.gen_range(0..all.len())].to_bytes().to_vec()
            }
            4 => cfg_tiny(),
            5 if !self.doctored => cfg_tiny(),
            5 => {
                // a real block with one to three of its other bytes altered (known family/id, different size fields)
                let all = crate::ctl::ALL_TYPES;
                let mut b = all[rng.gen_range(0..all.len())].to_bytes().to_vec();
                for _ in 0..rng.gen_range(1..=3) {
                    let k = rng.gen_range(2..16);
                    b[k] = [0u8, 1, 7, 8, 9, 16, 28, 30, 200, 255][rng.gen_range(0..10)];
                }
                b
            }
            6 => cfg_horizon(),
            7 => {
                // arbitrary contents, real family
                let mut b: Vec<u8> = (0..16).map(|_| rng.r#gen()).collect();
                b[0] = if rng.gen_bool(0.5) { 4 } else { 8 };
                b
            }
            8 if rng.gen_bool(0.5) => {
                // a small custom size with arbitrary values in the bytes the layout calls unused / unknown
                let mut b: Vec<u8> = (0..16).map(|_| rng.r#gen()).collect();
                if rng.gen_bool(0.5) {
                    b[0] = 4;
                    b[4] = rng.gen_range(1..=17);
                    for k in 5..9 {
                        b[k] = if rng.gen_bool(0.5) { 0 } else { rng.gen_range(0..=6) };
                    }
                } else {
                    b[0] = 8;
                    b[5] = rng.gen_range(1..=17);
                    b[7] = rng.gen_range(0..=24);
                }
                b
            }
            8 => {
                // small arbitrary sizes incl. zero and large widths
                let mut b = vec![0u8; 16];
                b[0] = if rng.gen_bool(0.5) { 4 } else { 8 };
                b[1] = rng.r#gen();
                for x in b.iter_mut().skip(2) {
                    *x = [0u8, 1, 2, 7, 8, 9, 16, 200, 255][rng.gen_range(0..9)];
                }
                b
            }
            _ => (0..16).map(|_| rng.r#gen()).collect(),
        }
    }

    /// Next message, biased by the (publicly visible) state of the sign so that transfers get deep.
    pub fn next(&mut self, st: State, typ_dims: Option<(u32, u32)>, sent_in_page: &mut usize, chunks: &mut u32) -> Message<'static> {
        let own = self.own[self.rng.gen_range(0..self.own.len())];
        let a = if self.rng.gen_bool(0.93) { own } else { self.foreign };
        let r = self.rng.gen_range(0..100);
        match st {
            State::ConfigInProgress if r < 70 => {
                if r < 45 {
                    *chunks += 1;
                    let mut cfg = self.rand_cfg();
                    // now and then the block is followed by extra bytes, or cut short: only exactly 16 bytes are a configuration
                    match self.rng.gen_range(0..12) {
                        0 => cfg.extend((0..self.rng.gen_range(1..=239)).map(|i| i as u8)),
                        1 => cfg.truncate(self.rng.gen_range(1..16)),
                        _ => {
                            if let Some(d) = documented_dims(&cfg) {
                                self.cfg_dims = Some(d);
                            }
                        }
                    }
                    sd(0, &cfg)
                } else if r < 50 {
                    *chunks += 1;
                    let n = self.rng.gen_range(0..=40);
                    let d: Vec<u8> = (0..n).map(|_| self.rng.r#gen()).collect();
                    sd(if self.rng.gen_bool(0.5) { 0 } else { 16 }, &d)
                } else {
                    let n = self.pick_count(*chunks);
                    *chunks = 0;
                    Message::DataChunksSent(ChunkCount(n))
                }
            }
            State::PixelsInProgress if r < 85 => {
                // the page length the walker aims for: from the configuration it sent itself (any family-4/8 block), else the known type
                let page_len = self.cfg_dims.or(typ_dims).map(|(w, h)| ((4 + w as usize * ((h as usize + 7) / 8) + 15) / 16) * 16).unwrap_or(32);
                if r < 70 {
                    // mostly well-formed chunking, with occasional short / long / empty / misplaced chunks
                    let q = self.rng.gen_range(0..100);
                    let len = if q < 80 { 16 } else if q < 85 { 0 } else if q < 90 { self.rng.gen_range(1..16) } else if q < 97 { self.rng.gen_range(17..=64) } else { 255 };
                    let off = if *sent_in_page >= page_len || (q >= 97) { 0 } else { (*sent_in_page % 65536) as u16 };
                    if off == 0 {
                        *sent_in_page = 0;
                    }
                    // lost chunk: skip ahead sometimes
                    if self.rng.gen_bool(0.03) {
                        *sent_in_page += 16;
                    }
                    *sent_in_page += len;
                    *chunks += 1;
                    let d: Vec<u8> = (0..len).map(|_| self.rng.r#gen()).collect();
                    sd(off, &d)
                } else {
                    let n = self.pick_count(*chunks);
                    *chunks = 0;
                    *sent_in_page = 0;
                    Message::DataChunksSent(ChunkCount(n))
                }
            }
            _ => match r % 20 {
                0 => Message::Hello(Address(a)),
                1 | 2 => Message::QueryState(Address(a)),
                3 => {
                    if self.rng.gen_bool(0.3) { Message::Goodbye(Address(a)) } else { Message::QueryState(Address(a)) }
                }
                4 | 5 => Message::PixelsComplete(Address(a)),
                6..=12 => {
                    // prefer the operation that is legal now
                    let op = match st {
                        State::Unconfigured | State::ConfigFailed => Operation::ReceiveConfig,
                        State::ConfigReceived | State::PixelsFailed | State::ShowingPages => Operation::ReceivePixels,
                        State::PageLoaded => {
                            if self.rng.gen_bool(0.6) { Operation::ShowLoadedPage } else { Operation::ReceivePixels }
                        }
                        State::PageShown => {
                            if self.rng.gen_bool(0.6) { Operation::LoadNextPage } else { Operation::ReceivePixels }
                        }
                        State::ReadyToReset => Operation::FinishReset,
                        State::PixelsReceived => {
                            return Message::PixelsComplete(Address(a));
                        }
                        _ => j::OPS[self.rng.gen_range(0..6)],
                    };
                    if op == Operation::ReceivePixels || op == Operation::ReceiveConfig {
                        *chunks = 0;
                        *sent_in_page = 0;
                    }
                    Message::RequestOperation(Address(a), op)
                }
                13 | 14 => Message::RequestOperation(Address(a), j::OPS[self.rng.gen_range(0..6)]),
                15 => Message::DataChunksSent(ChunkCount([0u16, 1, 2, 3, 6, 65535][self.rng.gen_range(0..6)])),
                16 => {
                    let n = self.rng.gen_range(0..=20);
                    let d: Vec<u8> = (0..n).map(|_| self.rng.r#gen()).collect();
                    sd(if self.rng.gen_bool(0.5) { 0 } else { 16 }, &d)
                }
                17 => Message::ReportState(Address(a), j::STATES[self.rng.gen_range(0..13)]),
                18 => Message::AckOperation(Address(a), j::OPS[self.rng.gen_range(0..6)]),
                _ => Message::Unknown(Frame::new(Address(a), MsgType(self.rng.gen_range(7..=255)), Data::try_new(vec![self.rng.r#gen()]).unwrap())),
            },
        }
    }

    fn pick_count(&mut self, truth: u32) -> u16 {
        let t = (truth % 65536) as u16;
        match self.rng.gen_range(0..10) {
            0..=5 => t,
            6 => t.wrapping_add(1),
            7 => t.wrapping_sub(1),
            8 => 0,
            _ => 65535,
        }
    }
}

fn dims_of(s: &VirtualSign<'_>) -> Option<(u32, u32)> {
    s.sign_type().map(|t| t.dimensions())
}

/// Random walks on one sign; events: reset, step (m, r, obs).  A panic ends the walk (the panic event is recorded).
pub fn record_walks(a: &Args, out: &mut TraceOut, seed_salt: u64, walks: usize, steps: usize) -> Value {
    let mut total = 0usize;
    let mut panics = 0usize;
    for w in 0..walks {
        out.balance();
        let mut rng = StdRng::seed_from_u64(a.seed ^ seed_salt ^ ((w as u64) << 20));
        let own: u16 = match w % 5 {
            0 => 3,
            1 => 0,
            2 => 0xFFFF,
            3 => 0x100,
            _ => rng.r#gen(),
        };
        let foreign = own ^ (1u16 << (w % 16)); // a near miss: differs from the own address in exactly one bit
        let flip = if w % 2 == 0 { PageFlipStyle::Manual } else { PageFlipStyle::Automatic };
        let mut walker = Walker { rng, own: vec![own], foreign, cfg_dims: None, doctored: true };
        logging(w % 3 == 1); // one walk in three runs with logging enabled
        let mut s = VirtualSign::new(Address(own), flip);
        out.emit(json!({"e": "reset", "addr": own, "flip": flip_name(flip)}));
        let (mut sent, mut chunks) = (0usize, 0u32);
        for _ in 0..steps {
            let m = walker.next(s.state(), dims_of(&s), &mut sent, &mut chunks);
            let (r, fine) = apply(&mut s, &m);
            total += 1;
            if !fine {
                panics += 1;
                out.emit(json!({"e": "step", "m": j::msg(&m), "r": r, "obs": {"st": "Panic", "typ": "None", "pages": []}}));
                break;
            }
            out.emit(json!({"e": "step", "m": j::msg(&m), "r": r, "obs": obs(&s)}));
        }
    }
    json!({"walk_steps": total, "panics": panics})
}

/// Directed histories for C12: for every sign type, a transfer with a lost / short / extra chunk / wrong count.
pub fn record_directed(out: &mut TraceOut, wrap_pixels: bool, wrap_config: bool) -> Value {
    let thorough = wrap_pixels;
    let all = [
        SignType::Max3000Front112x16,
        SignType::Max3000Front98x16,
        SignType::Max3000Side90x7,
        SignType::Max3000Rear30x10,
        SignType::Max3000Rear23x10,
        SignType::Max3000Dash30x7,
        SignType::HorizonFront160x16,
        SignType::HorizonFront140x16,
        SignType::HorizonSide96x8,
        SignType::HorizonRear48x16,
        SignType::HorizonDash40x12,
    ];
    let mut n = 0usize;
    let mut runs = 0usize;
    let mut run = |out: &mut TraceOut, msgs: Vec<Message<'static>>, flip: PageFlipStyle| {
        out.balance();
        runs += 1;
        logging(runs % 2 == 0);
        let mut s = VirtualSign::new(Address(7), flip);
        out.emit(json!({"e": "reset", "addr": 7, "flip": flip_name(flip)}));
        for m in msgs {
            let (r, fine) = apply(&mut s, &m);
            n += 1;
            if !fine {
                out.emit(json!({"e": "step", "m": j::msg(&m), "r": r, "obs": {"st": "Panic", "typ": "None", "pages": []}}));
                break;
            }
            out.emit(json!({"e": "step", "m": j::msg(&m), "r": r, "obs": obs(&s)}));
        }
    };
    let a = Address(7);
    for (ti, t) in all.iter().enumerate() {
        let (w, h) = t.dimensions();
        let page = flipdot_core::Page::new(flipdot_core::PageId(ti as u8), w, h);
        let bytes = page.as_bytes().to_vec();
        let chunks: Vec<Vec<u8>> = bytes.chunks(16).map(|c| c.to_vec()).collect();
        let nchunks = chunks.len() as u16;
        let prologue = |v: &mut Vec<Message<'static>>| {
            v.push(Message::RequestOperation(a, Operation::ReceiveConfig));
            v.push(sd(0, t.to_bytes()));
            v.push(Message::DataChunksSent(ChunkCount(1)));
            v.push(Message::QueryState(a));
            v.push(Message::RequestOperation(a, Operation::ReceivePixels));
        };
        // variants: 0 good, 1 lost first, 2 lost middle, 3 lost last, 4 short chunk, 5 extra chunk, 6 count low, 7 count high,
        //           8 duplicated chunk, 9 two pages second incomplete, 10 abandoned then reset
        for variant in 0..11 {
            let mut v = vec![];
            prologue(&mut v);
            let mut count = 0u16;
            for (i, c) in chunks.iter().enumerate() {
                let skip = (variant == 1 && i == 0) || (variant == 2 && i == chunks.len() / 2) || (variant == 3 && i + 1 == chunks.len());
                if skip {
                    continue;
                }
                let data = if variant == 4 && i == chunks.len() / 2 { c[..7].to_vec() } else { c.clone() };
                v.push(sd((i * 16) as u16, &data));
                count += 1;
                if variant == 8 && i == 1 {
                    v.push(sd((i * 16) as u16, &data));
                    count += 1;
                }
            }
            if variant == 5 {
                v.push(sd(nchunks * 16, &[0xEE; 16]));
                count += 1;
            }
            if variant == 9 {
                for (i, c) in chunks.iter().enumerate().take(chunks.len() - 1) {
                    v.push(sd((i * 16) as u16, c));
                    count += 1;
                }
            }
            if variant == 10 {
                v.push(Message::RequestOperation(a, Operation::StartReset));
                v.push(Message::DataChunksSent(ChunkCount(count)));
                v.push(sd(0, &[1; 16]));
                v.push(Message::Hello(a));
                v.push(Message::RequestOperation(a, Operation::FinishReset));
                v.push(Message::Hello(a));
            } else {
                let announced = match variant {
                    6 => count.wrapping_sub(1),
                    7 => count + 1,
                    _ => count,
                };
                v.push(Message::DataChunksSent(ChunkCount(announced)));
                v.push(Message::QueryState(a));
                v.push(Message::PixelsComplete(a));
                v.push(Message::QueryState(a));
            }
            run(out, v, if variant % 2 == 0 { PageFlipStyle::Manual } else { PageFlipStyle::Automatic });
        }
    }
    // configuration blocks with arbitrary field values
    let mut v = vec![];
    for fam in [4u8, 8] {
        for wb in [0u8, 1, 127, 128, 200, 255] {
            for hb in [0u8, 1, 7, 8, 9, 255] {
                let mut b = vec![0u8; 16];
                b[0] = fam;
                b[1] = 0x99;
                if fam == 4 {
                    b[4] = hb;
                    b[5] = wb;
                    b[6] = wb;
                    b[7] = wb;
                    b[8] = wb;
                } else {
                    b[5] = hb;
                    b[7] = wb;
                }
                v.push(Message::RequestOperation(a, Operation::ReceiveConfig));
                v.push(sd(0, &b));
                v.push(Message::DataChunksSent(ChunkCount(1)));
                v.push(Message::Hello(a));
                v.push(Message::RequestOperation(a, Operation::ReceivePixels));
                v.push(sd(0, &[0x55; 16]));
                v.push(sd(16, &[0x66; 16]));
                v.push(Message::DataChunksSent(ChunkCount(2)));
                v.push(Message::Hello(a));
                v.push(Message::Goodbye(a));
            }
        }
    }
    run(out, v, PageFlipStyle::Manual);
    // complete, well-formed transfers of one page for custom configurations: large sizes, sizes at buffer boundaries,
    // and blocks with arbitrary values in the bytes the documented layout does not use
    let mut customs: Vec<Vec<u8>> = vec![
        vec![4, 0x99, 0, 0x0F, 0x80, 0x80, 0x80, 0x80, 0x80, 0x10, 0, 0, 0, 0, 0, 0],       // 512 x 128 (8208 bytes)
        vec![8, 0xB0, 0, 7, 0x0C, 0xFF, 0, 0xFF, 1, 0, 0xFF, 0, 0, 0, 0, 0],                 // 255 x 255 (8176 bytes)
        vec![8, 0xB0, 0, 7, 0x0C, 8, 1, 0x0C, 1, 0, 0x0C, 0, 0, 0, 0, 0],                    // 12 x 8, byte 6 = 1
        vec![8, 0xB0, 0xFF, 7, 0x0C, 8, 0xFF, 0x1C, 0xFF, 0xFF, 0xFF, 0xFF, 0xFF, 0xFF, 0xFF, 0xFF],
        vec![4, 0x99, 0xFF, 0xFF, 9, 3, 0, 2, 0, 0xFF, 0xFF, 0xFF, 0xFF, 0xFF, 0xFF, 0xFF],
        vec![4, 0x20, 1, 6, 7, 30, 30, 30, 0, 8, 9, 9, 9, 9, 9, 9],                          // known id, other bytes altered
        // heights that need 3, 5, 6, 7, 9 bytes per column (strides that are not powers of two)
        vec![4, 0x99, 0, 0, 24, 28, 0, 0, 0, 8, 0, 0, 0, 0, 0, 0],                           // 28 x 24
        vec![4, 0x99, 0, 0, 40, 30, 0, 0, 0, 8, 0, 0, 0, 0, 0, 0],                           // 30 x 40
        vec![4, 0x99, 0, 0, 17, 10, 9, 0, 0, 8, 0, 0, 0, 0, 0, 0],                           // 19 x 17
        vec![8, 0xB0, 0, 7, 0x0C, 47, 0, 21, 3, 0, 7, 0, 0, 0, 0, 0],                        // Horizon 21 x 47
        vec![8, 0xB0, 0, 7, 0x0C, 50, 0, 12, 1, 2, 4, 4, 0, 0, 0, 0],                        // Horizon 12 x 50
        vec![8, 0xB0, 0, 7, 0x0C, 65, 0, 9, 1, 0, 9, 0, 0, 0, 0, 0],                         // Horizon 9 x 65
        // degenerate sizes: one column, one row, one pixel; no columns, no rows (nothing can be stored)
        vec![4, 0x99, 0, 0, 8, 1, 0, 0, 0, 8, 0, 0, 0, 0, 0, 0],                             // 1 x 8
        vec![4, 0x99, 0, 0, 1, 8, 0, 0, 0, 8, 0, 0, 0, 0, 0, 0],                             // 8 x 1
        vec![4, 0x99, 0, 0, 1, 1, 0, 0, 0, 8, 0, 0, 0, 0, 0, 0],                             // 1 x 1
        vec![4, 0x99, 0, 0, 1, 0, 1, 0, 0, 8, 0, 0, 0, 0, 0, 0],                             // 1 x 1, second panel
        vec![4, 0x99, 0, 0, 8, 0, 0, 0, 0, 8, 0, 0, 0, 0, 0, 0],                             // 0 x 8
        vec![4, 0x99, 0, 0, 0, 8, 0, 0, 0, 8, 0, 0, 0, 0, 0, 0],                             // 8 x 0
        vec![8, 0xB0, 0, 7, 0x0C, 1, 0, 1, 1, 0, 1, 0, 0, 0, 0, 0],                          // Horizon 1 x 1
        vec![8, 0xB0, 0, 7, 0x0C, 9, 0, 1, 1, 0, 1, 0, 0, 0, 0, 0],                          // Horizon 1 x 9
        vec![8, 0xB0, 0, 7, 0x0C, 0, 0, 5, 1, 0, 5, 0, 0, 0, 0, 0],                          // Horizon 5 x 0
    ];
    if thorough {
        customs.push(vec![4, 0x99, 0, 0, 0xFF, 0xFF, 0xFF, 0xFF, 0xFF, 0x10, 0, 0, 0, 0, 0, 0]); // 1020 x 255 (32656 bytes)
    }
    // configuration chunks that are too long or too short (17, 32, 255 and 15 bytes starting with a real block)
    for (ti, t) in crate::ctl::ALL_TYPES.iter().enumerate().take(4) {
        for extra in [1usize, 16, 239] {
            let mut long = t.to_bytes().to_vec();
            long.extend((0..extra).map(|i| (i + ti) as u8));
            let v = vec![Message::RequestOperation(a, Operation::ReceiveConfig), sd(0, &long), Message::DataChunksSent(ChunkCount(1)), Message::QueryState(a),
                         Message::RequestOperation(a, Operation::ReceiveConfig), sd(0, &long), Message::DataChunksSent(ChunkCount(0)), Message::QueryState(a),
                         Message::RequestOperation(a, Operation::ReceivePixels), Message::QueryState(a)];
            run(out, v, PageFlipStyle::Manual);
        }
        let short = t.to_bytes()[..15].to_vec();
        run(out, vec![Message::RequestOperation(a, Operation::ReceiveConfig), sd(0, &short), Message::DataChunksSent(ChunkCount(1)), Message::QueryState(a)], PageFlipStyle::Automatic);
    }
    // several complete pages in one transfer whose page numbers run through 0xFE, 0xFF, 0x00
    for t in [SignType::Max3000Dash30x7, SignType::HorizonSide96x8] {
        let (w, h) = t.dimensions();
        let mut v = vec![Message::RequestOperation(a, Operation::ReceiveConfig), sd(0, t.to_bytes()), Message::DataChunksSent(ChunkCount(1)),
                         Message::RequestOperation(a, Operation::ReceivePixels)];
        let mut n = 0u16;
        for id in [0xFDu8, 0xFE, 0xFF, 0x00, 0x01, 0xFF, 0xFF] {
            let page = flipdot_core::Page::new(flipdot_core::PageId(id), w, h).as_bytes().to_vec();
            for (i, c) in page.chunks(16).enumerate() {
                v.push(sd((i * 16) as u16, c));
                n += 1;
            }
        }
        v.push(Message::DataChunksSent(ChunkCount(n)));
        v.push(Message::QueryState(a));
        v.push(Message::PixelsComplete(a));
        v.push(Message::QueryState(a));
        run(out, v, PageFlipStyle::Manual);
    }
    // data chunks near the top of the 16-bit offset space (offset + length runs past 0xFFFF)
    {
        let mut v = vec![Message::RequestOperation(a, Operation::ReceiveConfig), sd(0, &cfg_tiny()), Message::DataChunksSent(ChunkCount(1)), Message::RequestOperation(a, Operation::ReceivePixels)];
        for (off, len) in [(0xFFF0u16, 16usize), (0xFFF8, 16), (0xFF02, 255), (0xFFFF, 2), (0xFFFF, 1), (0xFFFF, 255), (0x8000, 255), (0xFF00, 255)] {
            v.push(sd(off, &vec![0x5A; len]));
        }
        v.push(Message::DataChunksSent(ChunkCount(8)));
        v.push(Message::QueryState(a));
        run(out, v, PageFlipStyle::Manual);
    }
    // a doctored block followed by the genuine block of the same type (same transfer, and on a retry): the last one counts
    for (ti, t) in crate::ctl::ALL_TYPES.iter().enumerate() {
        let real = t.to_bytes().to_vec();
        let mut doc = real.clone();
        let k = if real[0] == 4 { 4 } else { 5 };
        doc[k] = doc[k].wrapping_add(2);
        let (w, h) = t.dimensions();
        let page = flipdot_core::Page::new(flipdot_core::PageId(ti as u8), w, h).as_bytes().to_vec();
        let mut v = vec![Message::RequestOperation(a, Operation::ReceiveConfig), sd(0, &doc)];
        if ti % 2 == 0 {
            v.push(sd(0, &real));
            v.push(Message::DataChunksSent(ChunkCount(2)));
        } else {
            v.push(Message::DataChunksSent(ChunkCount(9)));
            v.push(Message::RequestOperation(a, Operation::ReceiveConfig));
            v.push(sd(0, &real));
            v.push(Message::DataChunksSent(ChunkCount(1)));
        }
        v.push(Message::QueryState(a));
        v.push(Message::RequestOperation(a, Operation::ReceivePixels));
        let mut n = 0u16;
        for (i, c) in page.chunks(16).enumerate() {
            v.push(sd((i * 16) as u16, c));
            n += 1;
        }
        v.push(Message::DataChunksSent(ChunkCount(n)));
        v.push(Message::QueryState(a));
        run(out, v, PageFlipStyle::Manual);
    }
    // every known (family, id) with altered height / width fields
    for t in crate::ctl::ALL_TYPES {
        for (k, val) in [(4usize, 9u8), (5, 0x1C), (7, 0x31), (8, 1), (9, 0x10)] {
            let mut b = t.to_bytes().to_vec();
            b[k] = val;
            customs.push(b);
        }
    }
    for (ci, cfg) in customs.iter().enumerate() {
        let (w, h) = documented_dims(cfg).unwrap();
        let total = ((4 + w as usize * ((h as usize + 7) / 8) + 15) / 16) * 16;
        let mut v = vec![Message::RequestOperation(a, Operation::ReceiveConfig), sd(0, cfg), Message::DataChunksSent(ChunkCount(1)), Message::QueryState(a),
                         Message::RequestOperation(a, Operation::ReceivePixels)];
        let mut count = 0u32;
        for page in 0..2u8 {
            let bytes: Vec<u8> = (0..total).map(|i| if i == 0 { page } else { (i * 7 + ci) as u8 }).collect();
            for (i, c) in bytes.chunks(16).enumerate() {
                v.push(sd(((i * 16) % 65536) as u16, c));
                count += 1;
            }
        }
        v.push(Message::DataChunksSent(ChunkCount((count % 65536) as u16)));
        v.push(Message::QueryState(a));
        v.push(Message::PixelsComplete(a));
        v.push(Message::QueryState(a));
        run(out, v, if ci % 2 == 0 { PageFlipStyle::Manual } else { PageFlipStyle::Automatic });
    }
    // many one-chunk pages with page numbers scattered over the whole 8-bit range in one transfer, then the 'complete' message
    // (anything that orders, indexes or bounds pages by number or by count shows between 20 and a few hundred pages)
    for (pi, npages) in [20usize, 21, 33, 50, 64, 100, 257, 300].into_iter().enumerate() {
        let mut v = vec![Message::RequestOperation(a, Operation::ReceiveConfig), sd(0, &cfg_tiny()), Message::DataChunksSent(ChunkCount(1)), Message::RequestOperation(a, Operation::ReceivePixels)];
        let mut x = 0x9E37u32 + pi as u32;
        for _ in 0..npages {
            x = x.wrapping_mul(1_103_515_245).wrapping_add(12_345);
            let id = (x >> 16) as u8;
            v.push(sd(0, &[id, 16, 0, 0, (x >> 8) as u8, x as u8, 0, 0, 0, 0, 0, 0, 255, 255, 255, 255]));
        }
        v.push(Message::DataChunksSent(ChunkCount(npages as u16)));
        v.push(Message::QueryState(a));
        v.push(Message::PixelsComplete(a));
        v.push(Message::QueryState(a));
        v.push(Message::RequestOperation(a, Operation::ShowLoadedPage));
        v.push(Message::QueryState(a));
        run(out, v, if pi % 2 == 0 { PageFlipStyle::Manual } else { PageFlipStyle::Automatic });
    }
    // more than 64 KiB buffered in one transfer without ever restarting at offset 0 (300 chunks of 255 bytes at a fixed offset)
    {
        let mut v = vec![Message::RequestOperation(a, Operation::ReceiveConfig), sd(0, &cfg_tiny()), Message::DataChunksSent(ChunkCount(1)), Message::RequestOperation(a, Operation::ReceivePixels)];
        for i in 0..300u32 {
            v.push(sd(if i % 2 == 0 { 16 } else { 0xFFF0 }, &[0xAB; 255]));
        }
        v.push(Message::DataChunksSent(ChunkCount(300)));
        v.push(Message::QueryState(a));
        v.push(sd(16, &[1; 16]));
        v.push(Message::RequestOperation(a, Operation::ReceivePixels));
        v.push(sd(32, &[2; 16]));
        v.push(Message::DataChunksSent(ChunkCount(1)));
        v.push(Message::QueryState(a));
        run(out, v, PageFlipStyle::Manual);
    }
    if thorough {
        // 65536 + 5 chunks in one transfer (the 16-bit counter wraps)
        let mut v = vec![Message::RequestOperation(a, Operation::ReceiveConfig), sd(0, &cfg_tiny()), Message::DataChunksSent(ChunkCount(1)), Message::RequestOperation(a, Operation::ReceivePixels)];
        // (one-byte chunks at a fixed non-zero offset: nothing is ever flushed into a page, so the projection stays small)
        for i in 0..65541u32 {
            v.push(sd(16, &[(i % 251) as u8]));
        }
        v.push(Message::DataChunksSent(ChunkCount(5)));
        v.push(Message::QueryState(a));
        run(out, v, PageFlipStyle::Manual);
    }
    if wrap_config {
        // and in the configuration phase
        let mut v = vec![Message::RequestOperation(a, Operation::ReceiveConfig)];
        for _ in 0..65537u32 {
            v.push(sd(0, &cfg_tiny()));
        }
        v.push(Message::DataChunksSent(ChunkCount(1)));
        v.push(Message::QueryState(a));
        run(out, v, PageFlipStyle::Manual);
    }
    json!({"directed_steps": n})
}

pub fn record_c13(a: &Args) -> usize {
    let mut out = TraceOut::new(&a.out, "C13", a.shards);
    let thorough = a.tier == "thorough";
    let info = record_c13_bfs(a, &mut out);
    let w = record_walks(a, &mut out, 0xC13, if thorough { 64 } else { 12 }, if thorough { 3000 } else { 400 });
    let d = record_directed(&mut out, false, true);
    println!("INFO {}", json!({"bfs": info, "walks": w, "directed": d}));
    out.finish()
}

pub fn record_c12(a: &Args) -> usize {
    let mut out = TraceOut::new(&a.out, "C12", a.shards);
    let thorough = a.tier == "thorough";
    let w = record_walks(a, &mut out, 0xC12, if thorough { 96 } else { 16 }, if thorough { 8000 } else { 600 });
    let d = record_directed(&mut out, true, true); // (the 65 536-chunk histories are cheap enough for the quick tier)
    let b = record_bus_walks(a, &mut out, 0xC12B, if thorough { 32 } else { 6 }, if thorough { 3000 } else { 300 }, true);
    println!("INFO {}", json!({"walks": w, "directed": d, "bus": b}));
    out.finish()
}

// ------------------------------------------------------------------ buses of several signs (C14, C12)

pub fn bus_obs(bus: &VirtualSignBus<'_>, n: usize) -> Value {
    Value::Array((0..n).map(|i| obs(bus.sign(i))).collect())
}

/// Random interleavings on populations of 1..4 signs.  Each event carries the bus reply, the projection of every
/// sign afterwards, and what a solo clone of each sign would have replied (for the reference-free C14 monitor).
pub fn record_bus_walks(a: &Args, out: &mut TraceOut, salt: u64, walks: usize, steps: usize, panic_only: bool) -> Value {
    let mut total = 0usize;
    let mut panics = 0usize;
    for w in 0..walks {
        out.balance();
        let mut rng = StdRng::seed_from_u64(a.seed ^ salt ^ ((w as u64) << 24));
        let n = 1 + (w % 4);
        let mut addrs: Vec<u16> = vec![];
        while addrs.len() < n {
            // half of the populations consist of addresses that differ from the first one in a single bit
            if !addrs.is_empty() && w % 2 == 0 {
                let x = addrs[0] ^ (1u16 << ((w / 2 + addrs.len() * 5) % 16));
                if !addrs.contains(&x) {
                    addrs.push(x);
                    continue;
                }
            }
            let x: u16 = match rng.gen_range(0..6) {
                0 => 0,
                1 => 0xFFFF,
                2 => 3,
                3 => 4,
                _ => rng.r#gen(),
            };
            if !addrs.contains(&x) {
                addrs.push(x);
            }
        }
        // the absent address is a single-bit neighbour of a present one (bit 15, 8, 0, ... in turn)
        let mut absent: u16 = addrs[0] ^ (1u16 << ((15 + w * 7) % 16));
        while addrs.contains(&absent) {
            absent = absent.wrapping_add(1);
        }
        let flips: Vec<PageFlipStyle> = (0..n).map(|i| if (i + w) % 2 == 0 { PageFlipStyle::Manual } else { PageFlipStyle::Automatic }).collect();
        let mut signs: Vec<VirtualSign<'static>> = (0..n).map(|i| VirtualSign::new(Address(addrs[i]), flips[i])).collect();
        // every other population is made of signs with a history of their own (driven off the bus, possibly left in the
        // middle of a transfer) before the bus is built around them
        if w % 2 == 1 {
            for (i, sg) in signs.iter_mut().enumerate() {
                let mut pre = Walker { rng: StdRng::seed_from_u64(rng.r#gen()), own: vec![addrs[i]], foreign: absent, cfg_dims: None, doctored: false };
                let (mut s0, mut c0) = (0usize, 0u32);
                let k = [0usize, 1, 2, 3, 5, 8, 20][rng.gen_range(0..7)];
                for _ in 0..k {
                    let m = pre.next(sg.state(), sg.sign_type().map(|t| t.dimensions()), &mut s0, &mut c0);
                    if catch(std::panic::AssertUnwindSafe(|| sg.process_message(&m))).is_err() {
                        break;
                    }
                }
            }
        }
        let pre_obs: Vec<Value> = signs.iter().map(obs).collect();
        let mut bus = VirtualSignBus::new(signs);
        logging(w % 3 == 2);
        out.emit(json!({"e": "busreset", "signs": (0..n).map(|i| json!({"addr": addrs[i], "flip": flip_name(flips[i]), "obs": pre_obs[i]})).collect::<Vec<_>>()}));
        let mut walker = Walker { rng, own: addrs.clone(), foreign: absent, cfg_dims: None, doctored: true };
        let mut focus = 0usize;
        let (mut sent, mut chunks) = (vec![0usize; n], vec![0u32; n]);
        for _ in 0..steps {
            if walker.rng.gen_bool(0.15) {
                focus = walker.rng.gen_range(0..n);
            }
            // generate as if talking to the focus sign
            let st = bus.sign(focus).state();
            let dims = dims_of(bus.sign(focus));
            walker.own = vec![addrs[focus]];
            if walker.rng.gen_bool(0.1) {
                walker.own = addrs.clone();
            }
            let m = walker.next(st, dims, &mut sent[focus], &mut chunks[focus]);
            // what each sign alone would do
            let solo: Vec<Value> = (0..n)
                .map(|i| {
                    let mut c = bus.sign(i).clone();
                    let (r, fine) = apply(&mut c, &m);
                    json!({"r": r, "obs": if fine { obs(&c) } else { json!({"st": "Panic", "typ": "None", "pages": []}) }})
                })
                .collect();
            let before = bus_obs(&bus, n);
            let r = catch(|| bus.process_message(m.clone()));
            total += 1;
            match r {
                Ok(Ok(reply)) => {
                    if panic_only {
                        out.emit(json!({"e": "busstep", "m": j::msg(&m), "r": j::reply(&reply), "obs": bus_obs(&bus, n)}));
                    } else {
                        out.emit(json!({"e": "busstep", "m": j::msg(&m), "r": j::reply(&reply), "before": before, "obs": bus_obs(&bus, n),
                                        "solo": solo.iter().map(|s| s["r"].clone()).collect::<Vec<_>>(),
                                        "soloobs": solo.iter().map(|s| s["obs"].clone()).collect::<Vec<_>>()}));
                    }
                }
                Ok(Err(_)) => {
                    out.emit(json!({"e": "busstep", "m": j::msg(&m), "r": {"k": "BusError", "a": 0, "s": "", "t": 0, "d": []}, "obs": bus_obs(&bus, n)}));
                    break;
                }
                Err(_) => {
                    panics += 1;
                    out.emit(json!({"e": "busstep", "m": j::msg(&m), "r": panic_reply(), "obs": []}));
                    break;
                }
            }
        }
    }
    json!({"bus_steps": total, "panics": panics})
}

/// A scripted bus history, recorded like the random ones (busreset / busstep with before, solo, soloobs).
fn run_bus_script(out: &mut TraceOut, desc: &[(u16, PageFlipStyle)], msgs: Vec<Message<'static>>) -> usize {
    let n = desc.len();
    let mut bus = VirtualSignBus::new(desc.iter().map(|(a, f)| VirtualSign::new(Address(*a), *f)).collect::<Vec<_>>());
    out.emit(json!({"e": "busreset", "signs": desc.iter().map(|(a, f)| json!({"addr": a, "flip": flip_name(*f)})).collect::<Vec<_>>()}));
    let mut steps = 0;
    for m in msgs {
        let solo: Vec<Value> = (0..n)
            .map(|i| {
                let mut c = bus.sign(i).clone();
                let (r, fine) = apply(&mut c, &m);
                json!({"r": r, "obs": if fine { obs(&c) } else { json!({"st": "Panic", "typ": "None", "pages": []}) }})
            })
            .collect();
        let before = bus_obs(&bus, n);
        let r = catch(|| bus.process_message(m.clone()));
        steps += 1;
        match r {
            Ok(Ok(reply)) => out.emit(json!({"e": "busstep", "m": j::msg(&m), "r": j::reply(&reply), "before": before, "obs": bus_obs(&bus, n),
                                             "solo": solo.iter().map(|s| s["r"].clone()).collect::<Vec<_>>(),
                                             "soloobs": solo.iter().map(|s| s["obs"].clone()).collect::<Vec<_>>()})),
            _ => {
                out.emit(json!({"e": "busstep", "m": j::msg(&m), "r": panic_reply(), "obs": []}));
                break;
            }
        }
    }
    steps
}

/// Like run_bus_script for very long scripts and large populations: a step that left every sign as it was and that the
/// Rust-side evaluation of the C14 relations (isolation_violation, the same relations as Trace_Monitor!Isolation) finds in
/// order is summarised (every `keep`-th such step is still written out in full); every other step - any step that changes
/// a sign and any step the relations object to - is written out in full, so the verdict stays with TLC's monitor.
fn run_bus_script_sparse(out: &mut TraceOut, desc: &[(u16, PageFlipStyle)], msgs: impl Iterator<Item = Message<'static>>, keep: usize) -> usize {
    let n = desc.len();
    let addrs: Vec<u16> = desc.iter().map(|d| d.0).collect();
    let mut bus = VirtualSignBus::new(desc.iter().map(|(a, f)| VirtualSign::new(Address(*a), *f)).collect::<Vec<_>>());
    out.emit(json!({"e": "busreset", "signs": desc.iter().map(|(a, f)| json!({"addr": a, "flip": flip_name(*f)})).collect::<Vec<_>>()}));
    let mut steps = 0;
    let mut quiet = 0usize;
    let mut before = bus_obs(&bus, n);
    for m in msgs {
        let solo: Vec<(Value, Value)> = (0..n)
            .map(|i| {
                let mut c = bus.sign(i).clone();
                let (r, fine) = apply(&mut c, &m);
                (r, if fine { obs(&c) } else { json!({"st": "Panic", "typ": "None", "pages": []}) })
            })
            .collect();
        let r = catch(|| bus.process_message(m.clone()));
        steps += 1;
        match r {
            Ok(Ok(reply)) => {
                let after = bus_obs(&bus, n);
                let rj = j::reply(&reply);
                let (b, a2) = (before.as_array().unwrap(), after.as_array().unwrap());
                let fine = after == before && isolation_violation(&addrs, &m, b, &rj, a2, &solo).is_none();
                if fine {
                    quiet += 1;
                }
                if !fine || quiet % keep == 1 {
                    out.emit(json!({"e": "busstep", "m": j::msg(&m), "r": rj, "before": before, "obs": after,
                                    "solo": solo.iter().map(|s| s.0.clone()).collect::<Vec<_>>(),
                                    "soloobs": solo.iter().map(|s| s.1.clone()).collect::<Vec<_>>()}));
                }
                before = after;
            }
            _ => {
                out.emit(json!({"e": "busstep", "m": j::msg(&m), "r": panic_reply(), "obs": []}));
                break;
            }
        }
    }
    steps
}

/// Directed bus histories for C14: two signs mid-transfer at once with a very long chunk stream; address pairs that
/// differ in one bit; every addressed kind sent to the single-bit neighbours of a present address.
fn record_bus_directed(out: &mut TraceOut, thorough: bool) -> Value {
    let mut steps = 0usize;
    let cfg = |a: u16| -> Vec<Message<'static>> {
        vec![Message::RequestOperation(Address(a), Operation::ReceiveConfig), sd(0, &cfg_tiny()), Message::DataChunksSent(ChunkCount(1)),
             Message::RequestOperation(Address(a), Operation::ReceivePixels)]
    };
    // (1) sign A buffers far more than 64 KiB while sign B (behind it on the bus) is mid-transfer too
    for order in 0..2 {
        out.balance();
        let (a, b) = if order == 0 { (3u16, 4u16) } else { (4, 3) };
        // both signs are put into the pixel-receiving state first (the offset-0 configuration chunk of the second
        // restarts the first one's page, harmlessly); then 270 chunks of 255 bytes at non-zero offsets reach both
        let mut v = cfg(a);
        v.extend(cfg(b));
        for i in 0..270u32 {
            v.push(sd(if i % 2 == 0 { 16 } else { 32 }, &[0xCD; 255]));
        }
        v.push(Message::DataChunksSent(ChunkCount(270)));
        v.push(Message::QueryState(Address(a)));
        v.push(Message::QueryState(Address(b)));
        steps += run_bus_script(out, &[(3, PageFlipStyle::Manual), (4, PageFlipStyle::Automatic)], v);
    }
    // (1b) a long history without any chunk count: receive requests of one sign alternate with complete little
    // "request, configuration chunk, abandon" episodes of another, so that any bus-level bookkeeping (counters of open
    // transfers and the like) is swept through hundreds of values while a sign is receiving
    {
        out.balance();
        let mut v = vec![];
        for r in 0..300u32 {
            v.push(Message::RequestOperation(Address(3), Operation::ReceiveConfig));
            if r % 7 == 3 {
                v.push(Message::RequestOperation(Address(3), Operation::ReceiveConfig)); // refused: no acknowledgement
            }
            v.push(Message::RequestOperation(Address(3), Operation::StartReset));
            v.push(Message::RequestOperation(Address(3), Operation::FinishReset));
            v.push(Message::RequestOperation(Address(6), Operation::ReceiveConfig));
            v.push(sd(0, SignType::Max3000Dash30x7.to_bytes())); // a known type: taking the chunk in is visible in sign_type()
            v.push(Message::RequestOperation(Address(6), Operation::StartReset));
            v.push(Message::RequestOperation(Address(6), Operation::FinishReset));
        }
        v.extend(cfg(6));
        v.push(sd(0, &[1, 16, 0, 0, 0, 0, 0, 0, 0, 0, 0, 0, 255, 255, 255, 255]));
        v.push(Message::DataChunksSent(ChunkCount(1)));
        v.push(Message::QueryState(Address(6)));
        v.push(Message::QueryState(Address(3)));
        steps += run_bus_script(out, &[(3, PageFlipStyle::Manual), (6, PageFlipStyle::Manual)], v);
    }
    // (1c) a long stretch of traffic that carries no data at all (queries, greetings, refused requests, to the other sign and
    // to an address nobody has) while a sign sits in the middle of a transfer, which is then completed normally: time-outs
    // and counters of "quiet" messages anywhere on the bus would show
    for (quiet, mid_cfg) in [(if thorough { 70_000usize } else { 1_100 }, false), (if thorough { 66_000 } else { 1_300 }, true)] {
        out.balance();
        let mut v = vec![];
        if mid_cfg {
            v.push(Message::RequestOperation(Address(3), Operation::ReceiveConfig));
        } else {
            v.extend(cfg(3));
            v.push(sd(0, &[9, 16, 0, 0, 1, 2, 3, 4]));
        }
        for i in 0..quiet {
            v.push(match i % 5 {
                0 => Message::QueryState(Address(6)),
                1 => Message::Hello(Address(0x2A)),
                2 => Message::RequestOperation(Address(6), Operation::ShowLoadedPage),
                3 => Message::PixelsComplete(Address(6)),
                _ => Message::QueryState(Address(0x2A)),
            });
        }
        if mid_cfg {
            v.push(sd(0, &cfg_tiny()));
            v.push(Message::DataChunksSent(ChunkCount(1)));
        } else {
            v.push(sd(8, &[5, 6, 7, 8, 255, 255, 255, 255]));
            v.push(Message::DataChunksSent(ChunkCount(2)));
        }
        v.push(Message::QueryState(Address(3)));
        v.push(Message::QueryState(Address(6)));
        steps += run_bus_script(out, &[(3, PageFlipStyle::Manual), (6, PageFlipStyle::Automatic)], v);
    }
    // (1d) replies travelling on the same wire: acknowledgements and state reports carrying another sign's (or nobody's) address
    // are put on the bus while a sign is receiving
    {
        out.balance();
        let mut v = cfg(3);
        v.push(sd(0, &[9, 16, 0, 0, 1, 2, 3, 4]));
        for ad in [6u16, 0x2A, 3] {
            for o in j::OPS {
                v.push(Message::AckOperation(Address(ad), o));
            }
            for st8 in j::STATES {
                v.push(Message::ReportState(Address(ad), st8));
            }
        }
        v.push(sd(8, &[5, 6, 7, 8, 255, 255, 255, 255]));
        v.push(Message::DataChunksSent(ChunkCount(2)));
        v.push(Message::QueryState(Address(3)));
        steps += run_bus_script(out, &[(3, PageFlipStyle::Manual), (6, PageFlipStyle::Automatic)], v);
    }
    // (2) single-bit neighbours: every addressed kind to x ^ (1 << k), with x alone and with both on the bus
    for (k, x) in [(15usize, 0x0012u16), (15, 0xFFFF), (8, 0x0003), (0, 0x0100), (7, 0x1234), (14, 0x4000)] {
        let y = x ^ (1u16 << k);
        for both in [false, true] {
            out.balance();
            let desc: Vec<(u16, PageFlipStyle)> = if both { vec![(x, PageFlipStyle::Manual), (y, PageFlipStyle::Manual)] } else { vec![(x, PageFlipStyle::Automatic)] };
            let mut v = vec![];
            v.extend(cfg(x));
            v.push(sd(0, &[1, 16, 0, 0, 0, 0, 0, 0, 0, 0, 0, 0, 255, 255, 255, 255]));
            v.push(Message::DataChunksSent(ChunkCount(1)));
            for target in [y, x, y] {
                let t = Address(target);
                v.push(Message::Hello(t));
                v.push(Message::QueryState(t));
                v.push(Message::PixelsComplete(t));
                for o in j::OPS {
                    v.push(Message::RequestOperation(t, o));
                }
                v.push(Message::Goodbye(t));
                if target == y {
                    v.extend(cfg(x));
                    v.push(sd(0, &[2, 16, 0, 0, 0, 0, 0, 0, 0, 0, 0, 0, 255, 255, 255, 255]));
                    v.push(Message::DataChunksSent(ChunkCount(1)));
                }
            }
            steps += run_bus_script(out, &desc, v);
        }
    }
    // (3) address arithmetic: bus-level routing state keyed by (a hash or a residue of) the address.  (3a) a discovery sweep -
    // a greeting to every one of the 65 536 addresses, upwards and then queries downwards - over a bus whose signs are blank,
    // configured and in the middle of a transfer; every present sign is spoken to again after each sweep
    {
        out.balance();
        let desc = [(5u16, PageFlipStyle::Manual), (9, PageFlipStyle::Automatic), (0x1234, PageFlipStyle::Manual), (0xFFFE, PageFlipStyle::Automatic)];
        let mut v: Vec<Message<'static>> = cfg(9);
        v.push(sd(0, &[1, 16, 0, 0, 0, 0, 0, 0, 0, 0, 0, 0, 255, 255, 255, 255]));
        v.push(Message::DataChunksSent(ChunkCount(1)));
        v.extend(cfg(0x1234));
        let present = |v: &mut Vec<Message<'static>>| {
            for a in [5u16, 9, 0x1234, 0xFFFE] {
                v.push(Message::QueryState(Address(a)));
                v.push(Message::Hello(Address(a)));
                v.push(Message::RequestOperation(Address(a), Operation::LoadNextPage));
            }
        };
        let step = 1usize;
        v.extend((0..=0xFFFFu16).step_by(step).map(|a| Message::Hello(Address(a))));
        present(&mut v);
        v.extend((0..=0xFFFFu16).rev().step_by(step).map(|a| Message::QueryState(Address(a))));
        present(&mut v);
        v.extend((0..=0xFFFFu16).step_by(step).map(|a| Message::RequestOperation(Address(a), Operation::ShowLoadedPage)));
        present(&mut v);
        v.push(sd(0, &[2, 16, 0, 0, 0, 0, 0, 0, 0, 0, 0, 0, 255, 255, 255, 255]));
        v.push(Message::DataChunksSent(ChunkCount(1)));
        present(&mut v);
        steps += run_bus_script_sparse(out, &desc, v.into_iter(), 9973);
    }
    // (3b) populous buses: 48 (and a few times 300) signs at pseudo-random distinct addresses and at arithmetic progressions
    // of various strides; every sign is greeted, asked to take a configuration and queried, interleaved with absent addresses
    {
        let mut x: u32 = 0x2545_F491;
        let mut next = || {
            x ^= x << 13;
            x ^= x >> 17;
            x ^= x << 5;
            x
        };
        let mut pops: Vec<Vec<u16>> = vec![];
        for k in 0..(if thorough { 120 } else { 30 }) {
            let size = if k % 15 == 14 { 300 } else { 48 };
            let mut set = std::collections::BTreeSet::new();
            while set.len() < size {
                set.insert((next() >> 7) as u16);
            }
            let mut p: Vec<u16> = set.into_iter().collect();
            // bus order is not address order
            p.rotate_left((next() as usize) % size);
            if k % 2 == 1 {
                p.reverse();
            }
            pops.push(p);
        }
        for (base, stride) in [(0u16, 1u16), (6, 233), (1, 255), (0, 256), (3, 257), (5, 1024), (5, 4093), (7, 4096), (0x10, 251), (2, 509), (9, 1021), (1, 65)] {
            pops.push((0..48u16).map(|i| base.wrapping_add(i.wrapping_mul(stride))).collect::<std::collections::BTreeSet<_>>().into_iter().collect());
        }
        for p in pops {
            out.balance();
            let desc: Vec<(u16, PageFlipStyle)> = p.iter().enumerate().map(|(i, a)| (*a, if i % 2 == 0 { PageFlipStyle::Manual } else { PageFlipStyle::Automatic })).collect();
            let mut v: Vec<Message<'static>> = vec![];
            for a in &p {
                v.push(Message::Hello(Address(*a)));
                if !p.contains(&a.wrapping_add(1)) {
                    v.push(Message::Hello(Address(a.wrapping_add(1))));
                }
            }
            for (i, a) in p.iter().enumerate() {
                if i % 4 == 0 {
                    v.push(Message::RequestOperation(Address(*a), Operation::ReceiveConfig));
                    v.push(Message::RequestOperation(Address(*a), Operation::StartReset));
                    v.push(Message::RequestOperation(Address(*a), Operation::FinishReset));
                }
                v.push(Message::QueryState(Address(*a)));
            }
            steps += run_bus_script_sparse(out, &desc, v.into_iter(), 37);
        }
    }
    json!({"directed_bus_steps": steps})
}

pub fn record_c14(a: &Args) -> usize {
    let mut out = TraceOut::new(&a.out, "C14", a.shards);
    let thorough = a.tier == "thorough";
    let d = record_bus_directed(&mut out, thorough);
    println!("INFO {}", json!({"directed": d}));
    let b = record_bus_walks(a, &mut out, 0xC14, if thorough { 160 } else { 24 }, if thorough { 2500 } else { 400 }, false);
    println!("INFO {}", json!({"bus": b}));
    out.finish()
}

/// The C14 relations, evaluated on observations of the real bus and of solo clones of its signs (reference-free).
fn isolation_violation(addrs: &[u16], m: &Message<'_>, before: &[Value], r: &Value, after: &[Value], solo: &[(Value, Value)]) -> Option<String> {
    let n = addrs.len();
    let none = j::reply(&None);
    let target: Option<u16> = match m {
        Message::Hello(a) | Message::QueryState(a) | Message::PixelsComplete(a) | Message::Goodbye(a) | Message::RequestOperation(a, _) => Some(a.0),
        _ => None,
    };
    let receiving = |o: &Value| matches!(o["st"].as_str(), Some("ConfigInProgress") | Some("PixelsInProgress"));
    if let Some(t) = target {
        for i in 0..n {
            if addrs[i] != t && after[i] != before[i] {
                return Some(format!("sign {} (address {}) changed on a message addressed to {}", i, addrs[i], t));
            }
        }
        if *r != none && r["a"].as_u64() != Some(t as u64) {
            return Some(format!("reply carries address {} but the message was addressed to {}", r["a"], t));
        }
        let mut anybody = false;
        for i in 0..n {
            if addrs[i] == t {
                anybody = true;
                if *r != solo[i].0 {
                    return Some(format!("bus reply differs from what sign {} alone replies", i));
                }
                if after[i] != solo[i].1 {
                    return Some(format!("sign {} on the bus ends up different from the same sign alone", i));
                }
            }
        }
        if !anybody && (*r != none || after != before) {
            return Some("a message for an absent address got a reply or changed a sign".to_string());
        }
    } else if matches!(m, Message::SendData(_, _) | Message::DataChunksSent(_)) {
        if *r != none {
            return Some("an unaddressed data message got a reply".to_string());
        }
        for i in 0..n {
            if !receiving(&before[i]) && after[i] != before[i] {
                return Some(format!("sign {} is not receiving but was changed by an unaddressed data message", i));
            }
            // every sign digests an unaddressed data message exactly as it would alone on a bus
            if after[i] != solo[i].1 {
                return Some(format!("sign {} ends up different from the same sign alone after an unaddressed data message", i));
            }
        }
    } else if *r != none || after != before {
        return Some("a sign-originated / unknown message got a reply or changed a sign".to_string());
    }
    None
}

/// G for the bus: header {signs:[{addr,flip}], alphabet}, then per model state {path, obs, idx, edges}.
/// The model's paths drive a real VirtualSignBus into every state of the bounded model; in each, every alphabet
/// message is applied to a clone of the bus and to solo clones of its signs, and the C14 relations are checked on
/// what was observed.  (Conformance of the values with the specification is C13's business, not C14's.)
pub fn replay_bus_graph(path: &str) {
    let mut rep = Report::new();
    let mut lines = read_lines(path);
    let header = lines.next().expect("header line");
    let alphabet: Vec<Message<'static>> = header["alphabet"].as_array().unwrap().iter().map(j::msg_from).collect();
    let signs_desc: Vec<(u16, PageFlipStyle)> = header["signs"].as_array().unwrap().iter().map(|s| (s["addr"].as_u64().unwrap() as u16, flip_from(s["flip"].as_str().unwrap()))).collect();
    let n = signs_desc.len();
    let addrs: Vec<u16> = signs_desc.iter().map(|x| x.0).collect();
    let mk = || VirtualSignBus::new(signs_desc.iter().map(|(a, f)| VirtualSign::new(Address(*a), *f)).collect::<Vec<_>>());
    let mut states = 0usize;
    let mut transitions = 0usize;
    let mut both_receiving = 0usize;
    for v in lines {
        states += 1;
        let ctx = json!({"path": v["path"]});
        let mut bus = mk();
        let mut ok = true;
        for i in v["path"].as_array().unwrap() {
            let m = alphabet[i.as_u64().unwrap() as usize - 1].clone();
            if !matches!(catch(|| bus.process_message(m)), Ok(Ok(_))) {
                ok = false;
                break;
            }
        }
        if !ok {
            // a crash is C12's finding; this state cannot be examined
            continue;
        }
        let before: Vec<Value> = (0..n).map(|i| obs(bus.sign(i))).collect();
        if before.iter().filter(|o| matches!(o["st"].as_str(), Some("ConfigInProgress") | Some("PixelsInProgress"))).count() >= 2 {
            both_receiving += 1;
        }
        for (k, m) in alphabet.iter().enumerate() {
            transitions += 1;
            let ectx = json!({"path": v["path"], "then": k + 1, "msg": j::msg(m), "signs": header["signs"]});
            let solo: Option<Vec<(Value, Value)>> = (0..n)
                .map(|i| {
                    let mut c = bus.sign(i).clone();
                    let (r, fine) = apply(&mut c, m);
                    if fine { Some((r, obs(&c))) } else { None }
                })
                .collect();
            let mut c = bus.clone();
            match (catch(|| c.process_message(m.clone())), solo) {
                (Ok(Ok(r)), Some(solo)) => {
                    let after: Vec<Value> = (0..n).map(|i| obs(c.sign(i))).collect();
                    match isolation_violation(&addrs, m, &before, &j::reply(&r), &after, &solo) {
                        None => rep.ok(),
                        Some(why) => rep.mismatch(json!({"what": why, "ctx": ectx, "reply": j::reply(&r), "before": before, "after": after})),
                    }
                }
                _ => {} // crash: C12's finding
            }
        }
        let _ = ctx;
    }
    rep.finish(json!({"states": states, "transitions": transitions, "alphabet": alphabet.len(), "signs": n, "states_with_two_signs_receiving": both_receiving}));
}
