//! C09, C10, C11 (and the controller half of C08): the real `Sign` against buses supplied by the harness.
use std::cell::RefCell;
use std::error::Error;
use std::io;
use std::rc::Rc;

use flipdot::{Address, Page, PageFlipStyle, PageId, Sign, SignBus, SignError, SignType};
use flipdot_core::{Data, Frame, Message, MsgType, Operation, State};
use rand::rngs::StdRng;
use rand::{Rng, SeedableRng};
use serde_json::{Value, json};

use crate::j;
use crate::util::{Args, Report, TraceOut, catch, logging, read_lines};

pub const ALL_TYPES: [SignType; 11] = [
    SignType::Max3000Front112x16,
    SignType::Max3000Front98x16,
    SignType::Max3000Side90x7,
    SignType::Max3000Rear30x10,
    SignType::Max3000Rear23x10,
    SignType::Max3000Dash30x7,
    SignType::HorizonFront160x16,
    SignType::HorizonFront140x16,
    SignType::HorizonSide96x8,
    SignType::HorizonRear48x16,
    SignType::HorizonDash40x12,
];

pub fn type_from(name: &str) -> SignType {
    *ALL_TYPES.iter().find(|t| format!("{:?}", t) == name).unwrap_or_else(|| panic!("sign type {}", name))
}

/// A scripted reply: a message, nothing, or a bus error.
#[derive(Clone, Debug)]
pub enum Reply {
    Msg(Message<'static>),
    None,
    BusError,
}

pub fn reply_from(v: &Value) -> Reply {
    match v["k"].as_str().unwrap() {
        "None" => Reply::None,
        "BusError" => Reply::BusError,
        _ => Reply::Msg(j::msg_from(v)),
    }
}

pub fn reply_json(r: &Reply) -> Value {
    match r {
        Reply::None => j::reply(&None),
        Reply::BusError => json!({"k": "BusError", "a": 0, "s": "", "t": 0, "d": []}),
        Reply::Msg(m) => j::msg(m),
    }
}

fn own<'a>(m: Message<'a>) -> Message<'static> {
    j::msg_from(&j::msg(&m))
}

/// A bus that answers from a script (or from a closure) and records the conversation.
pub struct ScriptedBus {
    pub next: Box<dyn FnMut(usize, &Message<'static>) -> Option<Reply>>,
    pub log: Vec<(Message<'static>, Reply)>,
    pub exhausted: bool,
}

thread_local! {
    /// rotates the kind of the injected bus errors between runs
    pub static ERR_KIND_SHIFT: std::cell::Cell<usize> = const { std::cell::Cell::new(0) };
}

pub fn run_call_with_kind(sign: &Sign, name: &str, pages: &[Page<'static>], _bus: &Rc<RefCell<ScriptedBus>>, kind: usize) -> String {
    ERR_KIND_SHIFT.with(|c| c.set(kind));
    let o = run_call(sign, name, pages);
    ERR_KIND_SHIFT.with(|c| c.set(0));
    o
}

impl SignBus for ScriptedBus {
    fn process_message<'a>(&mut self, message: Message<'_>) -> Result<Option<Message<'a>>, Box<dyn Error + Send + Sync>> {
        let m = own(message);
        let n = self.log.len();
        match (self.next)(n, &m) {
            None => {
                self.exhausted = true;
                self.log.push((m, Reply::BusError));
                Err(bus_error(n))
            }
            Some(r) => {
                self.log.push((m, r.clone()));
                match r {
                    Reply::None => Ok(None),
                    Reply::BusError => Err(bus_error(n + ERR_KIND_SHIFT.with(|c| c.get()))),
                    Reply::Msg(x) => Ok(Some(j::msg_from(&j::msg(&x)))),
                }
            }
        }
    }
}

/// Bus errors of many kinds: bare I/O errors of every common kind, and the same wrapped in a FrameError.
pub fn bus_error(n: usize) -> Box<dyn Error + Send + Sync> {
    const KINDS: [io::ErrorKind; 9] = [
        io::ErrorKind::Other,
        io::ErrorKind::Interrupted,
        io::ErrorKind::TimedOut,
        io::ErrorKind::WouldBlock,
        io::ErrorKind::UnexpectedEof,
        io::ErrorKind::BrokenPipe,
        io::ErrorKind::InvalidData,
        io::ErrorKind::ConnectionReset,
        io::ErrorKind::WriteZero,
    ];
    let e = io::Error::new(KINDS[n % KINDS.len()], "scripted bus error");
    // the concrete type of the boxed error varies too: a bare io::Error, a FrameError, the controller's own error type
    // (a bus may itself be built on a Sign), a plain text error
    match (n / KINDS.len()) % 5 {
        0 => Box::new(e),
        1 => Box::new(flipdot_core::FrameError::from(e)),
        2 => Box::new(SignError::UnexpectedResponse { expected: "x".into(), actual: "y".into() }),
        3 => Box::new(SignError::Bus { source: Box::new(e) }),
        _ => "a bus error that is just text".into(),
    }
}

pub fn outcome<T>(r: &Result<Result<T, SignError>, String>, style: impl Fn(&T) -> Option<PageFlipStyle>) -> String {
    match r {
        Err(_) => "Panic".to_string(),
        Ok(Ok(v)) => match style(v) {
            None => "Ok".to_string(),
            Some(PageFlipStyle::Automatic) => "Ok:Automatic".to_string(),
            Some(PageFlipStyle::Manual) => "Ok:Manual".to_string(),
        },
        Ok(Err(SignError::Bus { .. })) => "BusError".to_string(),
        Ok(Err(SignError::UnexpectedResponse { .. })) => "ProtocolError".to_string(),
        Ok(Err(_)) => "OtherError".to_string(),
    }
}


thread_local! {
    static AMBIENT: std::cell::Cell<usize> = const { std::cell::Cell::new(0) };
}

/// Ambient sharing of the bus: in turn nothing, two more handles on the same bus, and two more `Sign` objects (other
/// addresses) on it, all idle while the call runs.  How many owners a bus has must not matter to a call.
pub fn ambient(bus: &Rc<RefCell<ScriptedBus>>, me: Address, typ: SignType) -> (Vec<Rc<RefCell<ScriptedBus>>>, Vec<Sign>) {
    let k = AMBIENT.with(|c| {
        c.set(c.get() + 1);
        c.get()
    });
    match k % 3 {
        0 => (vec![], vec![]),
        1 => (vec![bus.clone(), bus.clone()], vec![]),
        _ => (vec![], vec![Sign::new(bus.clone(), Address(me.0 ^ 1), typ), Sign::new(bus.clone(), Address(me.0.wrapping_add(2)), typ)]),
    }
}

/// Runs one controller call on `sign`; returns the outcome string.
thread_local! {
    static CALLS: std::cell::Cell<usize> = const { std::cell::Cell::new(0) };
}

pub fn run_call(sign: &Sign, name: &str, pages: &[Page<'static>]) -> String {
    // every other call runs with logging enabled (the arguments of the library's log macros are then evaluated)
    let n = CALLS.with(|c| {
        c.set(c.get() + 1);
        c.get()
    });
    logging(n % 2 == 0);
    let out = run_call_inner(sign, name, pages);
    logging(false);
    out
}

fn run_call_inner(sign: &Sign, name: &str, pages: &[Page<'static>]) -> String {
    match name {
        "configure" => outcome(&catch(|| sign.configure()), |_| None),
        "configure_if_needed" => outcome(&catch(|| sign.configure_if_needed()), |_| None),
        "send_pages" => outcome(&catch(|| sign.send_pages(pages)), |s| Some(*s)),
        "show" => outcome(&catch(|| sign.show_loaded_page()), |_| None),
        "load" => outcome(&catch(|| sign.load_next_page()), |_| None),
        "shut_down" => outcome(&catch(|| sign.shut_down()), |_| None),
        _ => panic!("call {}", name),
    }
}

/// A page whose raw bytes are exactly `bytes` (length must be a multiple of 16, at least 16).
pub fn page_of(bytes: &[u8]) -> Page<'static> {
    assert!(bytes.len() % 16 == 0 && bytes.len() >= 16);
    // height 8: 4 + w bytes of data; w = len - 4 gives exactly len, w = len - 5 pads one byte (also exactly len)
    for w in [(bytes.len() - 4) as u32, (bytes.len() - 5) as u32, (bytes.len() - 12) as u32] {
        if let Ok(Ok(p)) = catch(|| Page::from_bytes(w, 8, bytes.to_vec())) {
            return p;
        }
    }
    panic!("harness: cannot wrap {} bytes in a Page (Page::from_bytes rejects every width that should fit)", bytes.len());
}

fn items_of(name: &str, typ: SignType, pages: &[Page<'static>]) -> Vec<Vec<u8>> {
    match name {
        "configure" | "configure_if_needed" => vec![typ.to_bytes().to_vec()],
        "send_pages" => pages.iter().map(|p| p.as_bytes().to_vec()).collect(),
        _ => vec![],
    }
}

pub fn call_event(name: &str, me: u16, typ: SignType, pages: &[Page<'static>]) -> Value {
    json!({"e": "call", "name": name, "me": me, "typ": format!("{:?}", typ),
           "items": items_of(name, typ, pages).iter().map(|b| j::bytes(b)).collect::<Vec<_>>()})
}

// ------------------------------------------------------------------ G: replay TLC's reply scripts

pub fn replay_scripts(path: &str) {
    let mut rep = Report::new();
    let mut scripts = 0usize;
    for v in read_lines(path) {
        scripts += 1;
        let name = v["call"].as_str().unwrap().to_string();
        let me = v["me"].as_u64().unwrap() as u16;
        let typ = type_from(v["typ"].as_str().unwrap());
        let script = v["script"].as_array().unwrap();
        let replies: Vec<Reply> = script.iter().map(|x| reply_from(&x["r"])).collect();
        let expected_msgs: Vec<Value> = script.iter().map(|x| x["m"].clone()).collect();
        let pages: Vec<Page<'static>> = if name == "send_pages" { v["items"].as_array().unwrap().iter().map(|b| page_of(&j::to_bytes(b))).collect() } else { vec![] };
        let rs = replies.clone();
        let bus = Rc::new(RefCell::new(ScriptedBus { next: Box::new(move |n, _| rs.get(n).cloned()), log: vec![], exhausted: false }));
        let sign = Sign::new(bus.clone(), Address(me), typ);
        let _ambient = ambient(&bus, Address(me), typ);
        let out = run_call(&sign, &name, &pages);
        let b = bus.borrow();
        let got: Vec<Value> = b.log.iter().map(|(m, _)| j::msg(m)).collect();
        let ctx = json!({"call": name, "me": me, "typ": v["typ"], "items": v["items"], "replies": script.iter().map(|x| x["r"].clone()).collect::<Vec<_>>()});
        // message by message: the first divergence is reported
        let mut ok = true;
        for i in 0..expected_msgs.len().max(got.len()) {
            let e = expected_msgs.get(i).cloned().unwrap_or(json!("<call should have ended>"));
            let g = got.get(i).cloned().unwrap_or(json!("<call ended early>"));
            if e != g {
                rep.mismatch(json!({"what": format!("message {} of the conversation", i + 1), "ctx": ctx, "expected": e, "observed": g}));
                ok = false;
                break;
            }
        }
        if ok {
            rep.ok();
            let _ = rep.cmp("outcome", &ctx, &v["out"], &json!(out));
        }
    }
    rep.finish(json!({"scripts": scripts}));
}

/// TLC's reply scripts drive the real `Sign`; the conversations that actually took place are written as a trace
/// (for the reference-free monitors C09 / C11).  If the real code asks for more replies than the script holds,
/// the bus answers with an error, which is a legitimate environment behaviour.
pub fn record_from_scripts(path: &str, a: &Args, name: &str) -> usize {
    let mut out = TraceOut::new(&a.out, name, a.shards);
    let mut n = 0usize;
    for v in read_lines(path) {
        if n % 16 == 0 {
            out.balance();
        }
        n += 1;
        let call = v["call"].as_str().unwrap().to_string();
        let me = v["me"].as_u64().unwrap() as u16;
        let typ = type_from(v["typ"].as_str().unwrap());
        let replies: Vec<Reply> = v["script"].as_array().unwrap().iter().map(|x| reply_from(&x["r"])).collect();
        let pages: Vec<Page<'static>> = if call == "send_pages" { v["items"].as_array().unwrap().iter().map(|b| page_of(&j::to_bytes(b))).collect() } else { vec![] };
        let bus = Rc::new(RefCell::new(ScriptedBus { next: Box::new(move |k, _| Some(replies.get(k).cloned().unwrap_or(Reply::BusError))), log: vec![], exhausted: false }));
        let sign = Sign::new(bus.clone(), Address(me), typ);
        let _ambient = ambient(&bus, Address(me), typ);
        let outc = run_call(&sign, &call, &pages);
        let b = bus.borrow();
        emit_conversation(&mut out, &call, me, typ, &pages, &b.log, &outc);
    }
    out.finish()
}

// ------------------------------------------------------------------ V: adversarial and scripted conversations

fn emit_conversation(out: &mut TraceOut, name: &str, me: u16, typ: SignType, pages: &[Page<'static>], log: &[(Message<'static>, Reply)], outcome: &str) {
    out.emit(call_event(name, me, typ, pages));
    for (m, r) in log {
        out.emit(json!({"e": "x", "m": j::msg(m), "r": reply_json(r)}));
    }
    out.emit(json!({"e": "ret", "out": outcome}));
}

/// What a well-behaved sign would answer, given the conversation so far (used to keep adversarial runs going deep).
fn plausible(rng: &mut StdRng, me: u16, name: &str, m: &Message<'static>, att: &mut u32) -> Reply {
    let a = Address(me);
    match m {
        Message::Hello(_) => {
            let st = match name {
                "configure_if_needed" => [State::Unconfigured, State::ConfigReceived, State::PageLoaded, State::PixelsFailed, State::ReadyToReset][rng.gen_range(0..5)],
                _ => [State::Unconfigured, State::ReadyToReset, State::ConfigReceived, State::PageShown, State::ConfigFailed][rng.gen_range(0..5)],
            };
            Reply::Msg(Message::ReportState(a, st))
        }
        Message::RequestOperation(_, op) => Reply::Msg(Message::AckOperation(a, *op)),
        Message::QueryState(_) => {
            let st = match name {
                "configure" | "configure_if_needed" => {
                    *att += 1;
                    if rng.gen_bool(0.35) { State::ConfigFailed } else { State::ConfigReceived }
                }
                "send_pages" => [State::PixelsReceived, State::PixelsFailed, State::PixelsReceived, State::ShowingPages, State::PageLoaded][rng.gen_range(0..5)],
                _ => [State::PageLoaded, State::PageShown, State::PageLoadInProgress, State::PageShowInProgress, State::ShowingPages][rng.gen_range(0..5)],
            };
            Reply::Msg(Message::ReportState(a, st))
        }
        _ => Reply::None,
    }
}

fn adversarial(rng: &mut StdRng, me: u16, sent: &Message<'static>) -> Reply {
    // an echo of the message just sent (half-duplex adapters do that), or a near echo
    if rng.gen_range(0..10) == 0 {
        return Reply::Msg(sent.clone());
    }
    let near = [me, me.wrapping_add(1), me.wrapping_sub(1), me ^ 0x100, me ^ 0x8000, me ^ 0x80, 0, 0xFFFF];
    let a = Address(near[rng.gen_range(0..near.len())]);
    match rng.gen_range(0..12) {
        0 | 1 => Reply::Msg(Message::ReportState(a, j::STATES[rng.gen_range(0..13)])),
        2 | 3 => Reply::Msg(Message::AckOperation(a, j::OPS[rng.gen_range(0..6)])),
        4 => Reply::None,
        5 => Reply::BusError,
        6 => Reply::Msg(Message::Hello(a)),
        7 => Reply::Msg(Message::SendData(flipdot_core::Offset(rng.r#gen()), Data::try_new(vec![rng.r#gen(); rng.gen_range(0..4)]).unwrap())),
        8 => Reply::Msg(Message::DataChunksSent(flipdot_core::ChunkCount(rng.r#gen()))),
        9 => match rng.gen_range(0..3) {
            // an Unknown wrapper: around a frame of an unassigned type, around a state report with an unlisted code, or around the
            // very bytes of a report / acknowledgement that would be welcome (a bus may hand over any frame this way)
            0 => Reply::Msg(Message::Unknown(Frame::new(a, MsgType(rng.gen_range(7..=255)), Data::try_new(vec![rng.r#gen(), rng.r#gen()]).unwrap()))),
            1 => Reply::Msg(Message::Unknown(Frame::new(a, MsgType(4), Data::try_new(vec![[0x0Eu8, 0x00, 0x14, 0xFF][rng.gen_range(0..4)]]).unwrap()))),
            _ => {
                let inner: Message<'static> = if rng.gen_bool(0.6) { Message::ReportState(a, j::STATES[rng.gen_range(0..13)]) } else { Message::AckOperation(a, j::OPS[rng.gen_range(0..6)]) };
                Reply::Msg(Message::Unknown(Frame::from(inner)))
            }
        },
        10 => Reply::Msg(Message::Goodbye(a)),
        _ => Reply::Msg(Message::RequestOperation(a, j::OPS[rng.gen_range(0..6)])),
    }
}

fn random_pages(rng: &mut StdRng, max_pages: usize) -> Vec<Page<'static>> {
    let n = rng.gen_range(0..=max_pages);
    (0..n)
        .map(|i| {
            let chunks = [1usize, 1, 2, 3, 6][rng.gen_range(0..5)];
            let mut b: Vec<u8> = (0..chunks * 16).map(|_| rng.r#gen()).collect();
            b[0] = i as u8;
            page_of(&b)
        })
        .collect()
}

/// Random adversarial conversations: mostly plausible replies, with an adversarial one at a random step.
pub fn record_adversarial(a: &Args, out: &mut TraceOut, salt: u64, runs: usize) -> Value {
    let mut rng = StdRng::seed_from_u64(a.seed ^ salt);
    let names = ["configure", "configure_if_needed", "send_pages", "show", "load", "shut_down"];
    let mut exchanges = 0usize;
    for run in 0..runs {
        if run % 8 == 0 {
            out.balance();
        }
        let name = names[rng.gen_range(0..names.len())];
        let me: u16 = [3u16, 0, 0xFFFF, 0x100, 0xFF, rng.r#gen()][rng.gen_range(0..6)];
        let typ = ALL_TYPES[rng.gen_range(0..11)];
        let pages = if name == "send_pages" { random_pages(&mut rng, 3) } else { vec![] };
        let bad_at = if rng.gen_bool(0.85) { rng.gen_range(0..40usize) } else { usize::MAX };
        let mut r2 = StdRng::seed_from_u64(rng.r#gen());
        let nm = name.to_string();
        let mut att = 0u32;
        let bus = Rc::new(RefCell::new(ScriptedBus {
            next: Box::new(move |n, m| {
                if n > 400 {
                    return Some(Reply::BusError); // runaway guard: ends the call
                }
                if n == bad_at || (n > bad_at && r2.gen_bool(0.3)) { Some(adversarial(&mut r2, me, m)) } else { Some(plausible(&mut r2, me, &nm, m, &mut att)) }
            }),
            log: vec![],
            exhausted: false,
        }));
        let sign = Sign::new(bus.clone(), Address(me), typ);
        let _ambient = ambient(&bus, Address(me), typ);
        let outc = run_call(&sign, name, &pages);
        let b = bus.borrow();
        exchanges += b.log.len();
        emit_conversation(out, name, me, typ, &pages, &b.log, &outc);
    }
    json!({"runs": runs, "exchanges": exchanges})
}

/// Cooperative-or-failing transfers with pages of arbitrary dimensions (C09): the sign acknowledges everything and
/// reports failure 0, 1, 2 or 3 times before success.
pub fn record_transfers(a: &Args, out: &mut TraceOut, heavy: bool) -> Value {
    let thorough = a.tier == "thorough";
    let mut rng = StdRng::seed_from_u64(a.seed ^ 0xC09);
    let mut exchanges = 0usize;
    let mut runs = 0usize;
    let mut one = |out: &mut TraceOut, name: &str, me: u16, typ: SignType, pages: Vec<Page<'static>>, failures: u32, rng_seed: u64| {
        out.balance();
        let nm = name.to_string();
        let mut fails_left = failures;
        let _ = rng_seed;
        let bus = Rc::new(RefCell::new(ScriptedBus {
            next: Box::new(move |_, m| {
                let a = Address(me);
                Some(match m {
                    Message::Hello(_) => Reply::Msg(Message::ReportState(a, State::Unconfigured)),
                    Message::RequestOperation(_, op) => Reply::Msg(Message::AckOperation(a, *op)),
                    Message::QueryState(_) => {
                        let (ok, bad) = if nm == "send_pages" { (State::PixelsReceived, State::PixelsFailed) } else { (State::ConfigReceived, State::ConfigFailed) };
                        if fails_left > 0 {
                            fails_left -= 1;
                            Reply::Msg(Message::ReportState(a, bad))
                        } else {
                            Reply::Msg(Message::ReportState(a, ok))
                        }
                    }
                    _ => Reply::None,
                })
            }),
            log: vec![],
            exhausted: false,
        }));
        let sign = Sign::new(bus.clone(), Address(me), typ);
        let _ambient = ambient(&bus, Address(me), typ);
        let outc = run_call(&sign, name, &pages);
        let b = bus.borrow();
        exchanges += b.log.len();
        runs += 1;
        emit_conversation(out, name, me, typ, &pages, &b.log, &outc);
    };
    let addrs = [3u16, 0, 0xFFFF, 0x1234];
    for (ti, typ) in ALL_TYPES.iter().enumerate() {
        for failures in 0..=3u32 {
            one(out, "configure", addrs[(ti + failures as usize) % 4], *typ, vec![], failures, 0);
        }
        one(out, "configure_if_needed", addrs[ti % 4], *typ, vec![], 0, 0);
        // pages of the sign's own size
        let (w, h) = typ.dimensions();
        let mut pages = vec![];
        for p in 0..(ti % 4) {
            let mut pg = Page::new(PageId(p as u8), w, h);
            for _ in 0..20 {
                pg.set_pixel(rng.gen_range(0..w), rng.gen_range(0..h), true);
            }
            pages.push(pg);
        }
        one(out, "send_pages", addrs[ti % 4], *typ, pages, (ti % 3) as u32, 0);
    }
    // pages of arbitrary dimensions, different from the sign's own: 1 chunk .. the 16-bit offset limit
    let mut dims: Vec<(u32, u32)> = vec![(0, 0), (1, 1), (12, 8), (13, 8), (28, 8), (5, 20), (7, 33), (100, 16), (255, 255)];
    if thorough {
        dims.extend_from_slice(&[(4092, 8), (65516, 8), (65532, 1), (65532, 8), (8190, 64), (4095, 128)]);
    } else if heavy {
        dims.extend_from_slice(&[(65532, 1), (65516, 8)]);
    }
    for (k, (w, h)) in dims.iter().enumerate() {
        let mut pg = Page::new(PageId(k as u8), *w, *h);
        if *w > 0 && *h > 0 {
            for _ in 0..50 {
                let (x, y) = (rng.gen_range(0..*w), rng.gen_range(0..*h));
                let _ = catch(|| pg.set_pixel(x, y, true)); // a panic here is C06's finding; the page is just a payload for C09
            }
        }
        let small = Page::new(PageId(0xEE), 12, 8);
        let failures = if pg.as_bytes().len() > 20000 { (k % 2) as u32 } else { (k % 4) as u32 };
        one(out, "send_pages", addrs[k % 4], ALL_TYPES[k % 11], vec![small.clone(), pg.clone()], failures, 0);
        one(out, "send_pages", addrs[(k + 1) % 4], ALL_TYPES[(k + 3) % 11], vec![pg, small], 0, 0);
    }
    // a single page longer than 65 536 bytes (the 16-bit offset wraps inside the item)
    {
        let long = Page::new(PageId(7), 4096, 128); // 65 552 bytes, 4097 chunks
        one(out, "send_pages", 0x0203, ALL_TYPES[4], vec![long.clone()], 0, 0);
        one(out, "send_pages", 3, ALL_TYPES[7], vec![Page::new(PageId(1), 12, 8), long, Page::new(PageId(2), 12, 8)], 1, 0);
    }
    // zero-copy pages that lie back to back in one buffer (borrowed pages: an item boundary that is not a memory boundary)
    for (w, h, count) in [(28u32, 8u32, 3usize), (30, 10, 2), (12, 8, 5)] {
        let one_len = Page::new(PageId(0), w, h).as_bytes().len();
        let bytes: Vec<u8> = (0..one_len * count).map(|i| if i % one_len == 0 { (i / one_len) as u8 } else { (i * 13) as u8 }).collect();
        let buf: &'static [u8] = Box::leak(bytes.into_boxed_slice());
        let pages: Vec<Page<'static>> = (0..count).filter_map(|k| Page::from_bytes(w, h, &buf[k * one_len..(k + 1) * one_len]).ok()).collect();
        one(out, "send_pages", addrs[count % 4], ALL_TYPES[count % 11], pages.clone(), (count % 2) as u32, 0);
        // and in the other order (still adjacent, descending addresses)
        one(out, "send_pages", addrs[(count + 1) % 4], ALL_TYPES[(count + 2) % 11], pages.into_iter().rev().collect(), 0, 0);
    }
    // long lists: more than 256 pages (cheap: one chunk each)
    {
        let many: Vec<Page<'static>> = (0..300).map(|i| { let mut b = vec![0xFFu8; 16]; b[0] = i as u8; b[5] = (i >> 8) as u8; page_of(&b) }).collect();
        one(out, "send_pages", 3, ALL_TYPES[0], many, 1, 0);
    }
    // a running chunk total beyond 4096 spread over several pages; retries during which the running total passes 2^16
    if heavy {
        let six: Vec<Page<'static>> = (0..6).map(|i| Page::new(PageId(i as u8), 65532, 1)).collect();
        one(out, "send_pages", 0x0101, ALL_TYPES[5], six, 2, 0);
        let nine: Vec<Page<'static>> = (0..9).map(|i| Page::new(PageId(i as u8), 65532, 1)).collect();
        one(out, "send_pages", 0x0102, ALL_TYPES[6], nine, 1, 0);
        // more than 21 845 chunks per attempt with the sign failing every attempt (3 x the frames of an attempt passes 2^16)
        let six: Vec<Page<'static>> = (0..6).map(|i| Page::new(PageId(i as u8), 65532, 1)).collect();
        one(out, "send_pages", 0x0103, ALL_TYPES[8], six, 5, 0);
        let big = Page::new(PageId(1), 65532, 1);
        let two = Page::new(PageId(2), 28, 8);
        let three = Page::new(PageId(3), 44, 8);
        one(out, "send_pages", 0xFFFF, ALL_TYPES[1], vec![big.clone(), two.clone(), three.clone()], 0, 0);
        one(out, "send_pages", 0, ALL_TYPES[2], vec![three, big, two], 0, 0);
        let mid: Vec<Page<'static>> = (0..40).map(|i| Page::new(PageId(i as u8), 212, 64)).collect();
        one(out, "send_pages", 0x100, ALL_TYPES[3], mid, 0, 0);
        // more chunks in one transfer than the 16-bit count field can hold: the count is announced modulo 2^16
        let huge: Vec<Page<'static>> = (0..17).map(|i| Page::new(PageId(i as u8), 65532, 1)).collect();
        one(out, "send_pages", 3, ALL_TYPES[4], huge, 0, 0);
    }
    // lists of 0..5 random small pages and from_bytes pages
    for k in 0..(if thorough { 200 } else { 30 }) {
        let pages = random_pages(&mut rng, 5);
        one(out, "send_pages", rng.r#gen(), ALL_TYPES[k % 11], pages, (k % 4) as u32, 0);
    }
    json!({"runs": runs, "exchanges": exchanges})
}

pub fn record_c09(a: &Args) -> usize {
    let mut out = TraceOut::new(&a.out, "C09", a.shards);
    let t = record_transfers(a, &mut out, true);
    let adv = record_adversarial(a, &mut out, 0xC09A, if a.tier == "thorough" { 3000 } else { 300 });
    println!("INFO {}", json!({"transfers": t, "adversarial": adv}));
    out.finish()
}

/// show / load-next against a sign that stays in progress for a long time (polling is not bounded by the protocol),
/// and bus errors of every kind at every step of a cooperative conversation.
pub fn record_directed_ctl(a: &Args, out: &mut TraceOut, long_polls: bool) -> Value {
    let thorough = a.tier == "thorough";
    let mut runs = 0usize;
    // (the C11 monitor evaluates whole-conversation predicates, which is quadratic in the length: it gets at most 1200 polls)
    let polls: Vec<usize> = if thorough && long_polls { vec![0, 1, 50, 299, 300, 301, 1000, 20_000] } else { vec![0, 3, 299, 300, 301, 1200] };
    for (k, &n) in polls.iter().enumerate() {
        for name in ["show", "load"] {
            out.balance();
            let me = [3u16, 0xFFFF][k % 2];
            let a_ = Address(me);
            let (trigger, inprog, target, op) = if name == "show" {
                (State::PageLoaded, State::PageShowInProgress, State::PageShown, Operation::ShowLoadedPage)
            } else {
                (State::PageShown, State::PageLoadInProgress, State::PageLoaded, Operation::LoadNextPage)
            };
            let mut served = 0usize;
            let bus = Rc::new(RefCell::new(ScriptedBus {
                next: Box::new(move |i, m| {
                    Some(match m {
                        Message::QueryState(_) if i == 0 => Reply::Msg(Message::ReportState(a_, trigger)),
                        Message::RequestOperation(_, _) => Reply::Msg(Message::AckOperation(a_, op)),
                        Message::QueryState(_) => {
                            if served < n {
                                served += 1;
                                Reply::Msg(Message::ReportState(a_, if served % 2 == 0 && n > 10 { State::PageLoadInProgress } else { inprog }))
                            } else {
                                Reply::Msg(Message::ReportState(a_, target))
                            }
                        }
                        _ => Reply::None,
                    })
                }),
                log: vec![],
                exhausted: false,
            }));
            let sign = Sign::new(bus.clone(), a_, ALL_TYPES[k % 11]);
            let _ambient = ambient(&bus, a_, ALL_TYPES[k % 11]);
            let outc = run_call(&sign, name, &[]);
            let b = bus.borrow();
            emit_conversation(out, name, me, ALL_TYPES[k % 11], &[], &b.log, &outc);
            runs += 1;
        }
    }
    // a bus error (of a different kind each time) at every step of a cooperative conversation of every call
    let names = ["configure", "configure_if_needed", "send_pages", "show", "load", "shut_down"];
    let mut kind = 0usize;
    for name in names {
        for fail_at in 0..(if name == "send_pages" { 14 } else { 8 }) {
            for rep in 0..(if thorough { 18 } else { 3 }) {
                kind += 1;
                let me = 3u16;
                let a_ = Address(me);
                let nm = name.to_string();
                let pages = if name == "send_pages" { vec![page_of(&[1u8; 32]), page_of(&[2u8; 16])] } else { vec![] };
                let k2 = kind + rep * 7;
                let bus = Rc::new(RefCell::new(ScriptedBus {
                    next: Box::new(move |i, m| {
                        if i == fail_at {
                            // a bus error, or (every third run) an echo of the message just sent
                            return Some(if rep % 3 == 2 { Reply::Msg(m.clone()) } else { Reply::BusError });
                        }
                        let _ = k2;
                        Some(match m {
                            Message::Hello(_) => Reply::Msg(Message::ReportState(a_, if nm == "configure_if_needed" { State::PixelsFailed } else { State::ReadyToReset })),
                            Message::RequestOperation(_, op) => Reply::Msg(Message::AckOperation(a_, *op)),
                            Message::QueryState(_) => Reply::Msg(Message::ReportState(a_, match nm.as_str() {
                                "send_pages" => State::PixelsReceived,
                                "show" => if i == 0 { State::PageLoaded } else { State::PageShown },
                                "load" => if i == 0 { State::PageShown } else { State::PageLoaded },
                                _ => State::ConfigReceived,
                            })),
                            _ => Reply::None,
                        })
                    }),
                    log: vec![],
                    exhausted: false,
                }));
                // the error-kind rotation is shifted per run so that every kind meets every step
                let sign = Sign::new(bus.clone(), a_, ALL_TYPES[kind % 11]);
                let _ambient = ambient(&bus, a_, ALL_TYPES[kind % 11]);
                let outc = run_call_with_kind(&sign, name, &pages, &bus, k2);
                let b = bus.borrow();
                emit_conversation(out, name, me, ALL_TYPES[kind % 11], &pages, &b.log, &outc);
                runs += 1;
            }
        }
    }
    json!({"directed_runs": runs})
}

/// Every reply a sign could give at the query that concludes a transfer attempt, for transfers of every size class
/// (configuration, one chunk, a real page, several hundred chunks, beyond a thousand), on the first attempt and on the
/// attempt after a reported failure; whatever came before, the bus is cooperative afterwards, so a controller that
/// carries on after a reply it must not accept is seen to carry on.
pub fn record_conclusions(a: &Args, out: &mut TraceOut) -> Value {
    let thorough = a.tier == "thorough";
    let mut runs = 0usize;
    let me = 0x0203u16;
    let a_ = Address(me);
    let mut finals: Vec<Reply> = vec![];
    for s in j::STATES {
        finals.push(Reply::Msg(Message::ReportState(a_, s)));
    }
    for s in [State::PixelsReceived, State::ConfigReceived, State::PixelsInProgress, State::PixelsFailed] {
        finals.push(Reply::Msg(Message::ReportState(Address(me ^ 0x100), s)));
    }
    finals.push(Reply::Msg(Message::AckOperation(a_, Operation::ReceivePixels)));
    for inner in [Message::ReportState(a_, State::PixelsReceived), Message::ReportState(a_, State::ConfigReceived), Message::ReportState(a_, State::PixelsFailed), Message::ReportState(a_, State::ConfigFailed)] {
        finals.push(Reply::Msg(Message::Unknown(Frame::from(inner))));
    }
    finals.push(Reply::Msg(Message::Unknown(Frame::new(a_, MsgType(4), Data::try_new(vec![0x0E]).unwrap()))));
    finals.push(Reply::Msg(Message::Unknown(Frame::new(a_, MsgType(4), Data::try_new(vec![0x03, 0x00]).unwrap()))));
    finals.push(Reply::Msg(Message::QueryState(a_)));
    finals.push(Reply::None);
    finals.push(Reply::BusError);
    // (chunks per page, pages); 0 chunks = a configure call
    let mut sizes: Vec<(usize, usize)> = vec![(0, 0), (1, 1), (21, 2), (513, 1), (300, 2)];
    if thorough {
        sizes.extend_from_slice(&[(1100, 1), (4095, 1), (2, 300)]);
    }
    for (chunks, npages) in sizes {
        let name = if chunks == 0 { "configure" } else { "send_pages" };
        let pages: Vec<Page<'static>> = (0..npages).map(|i| { let mut b = vec![0x33u8; chunks * 16]; b[0] = i as u8; page_of(&b) }).collect();
        for (fi, fin) in finals.iter().enumerate() {
            for attempt in 0..2usize {
                if attempt == 1 && !thorough && chunks > 100 && fi % 3 != 0 {
                    continue;
                }
                out.balance();
                let fin_json = reply_json(fin);
                let mut queries = 0usize;
                let nm = name.to_string();
                let bus = Rc::new(RefCell::new(ScriptedBus {
                    next: Box::new(move |_, m| {
                        let (ok, bad) = if nm == "send_pages" { (State::PixelsReceived, State::PixelsFailed) } else { (State::ConfigReceived, State::ConfigFailed) };
                        Some(match m {
                            Message::Hello(_) => Reply::Msg(Message::ReportState(a_, State::Unconfigured)),
                            Message::RequestOperation(_, op) => Reply::Msg(Message::AckOperation(a_, *op)),
                            Message::QueryState(_) => {
                                queries += 1;
                                if queries == attempt + 1 {
                                    reply_from(&fin_json)
                                } else if queries <= attempt {
                                    Reply::Msg(Message::ReportState(a_, bad))
                                } else {
                                    Reply::Msg(Message::ReportState(a_, ok))
                                }
                            }
                            _ => Reply::None,
                        })
                    }),
                    log: vec![],
                    exhausted: false,
                }));
                let typ = ALL_TYPES[(fi + attempt) % 11];
                let sign = Sign::new(bus.clone(), a_, typ);
                let _ambient = ambient(&bus, a_, typ);
                let outc = run_call_with_kind(&sign, name, &pages, &bus, fi + attempt);
                let b = bus.borrow();
                emit_conversation(out, name, me, typ, &pages, &b.log, &outc);
                runs += 1;
            }
        }
    }
    json!({"conclusion_runs": runs})
}

/// A reply where none is allowed: every kind of own-address (and foreign) message answering the k-th data chunk, for
/// controller addresses that coincide with chunk offsets (0x10, 0x20, 0x100, ...) and for ordinary ones; the bus is
/// cooperative afterwards, so a controller that carries on is seen to carry on.
pub fn record_chunk_replies(a: &Args, out: &mut TraceOut) -> Value {
    let thorough = a.tier == "thorough";
    let mut runs = 0usize;
    for (ai, me) in [0x0010u16, 0x0020, 0x0100, 0x0030, 0x0003, 0x0000].into_iter().enumerate() {
        let a_ = Address(me);
        let typ = ALL_TYPES[ai % 11];
        // three pages of 21 chunks (336 bytes): offsets 0x000..0x140 occur, 0x10/0x20/0x30/0x100 among them
        let pages: Vec<Page<'static>> = (0..2).map(|i| { let mut b = vec![0x44u8; 21 * 16]; b[0] = i as u8; page_of(&b) }).collect();
        for name in ["send_pages", "configure"] {
            let nchunks = if name == "configure" { 1 } else { 42 };
            for at in 0..nchunks {
                if !(thorough || name == "configure" || at < 4 || at % 21 == (me as usize / 16) % 21 || at % 7 == ai) {
                    continue;
                }
                for (ri, rep) in [Message::ReportState(a_, State::PixelsInProgress), Message::ReportState(a_, State::ConfigInProgress), Message::ReportState(a_, State::PixelsReceived),
                                  Message::AckOperation(a_, Operation::ReceivePixels), Message::ReportState(Address(me ^ 1), State::PixelsInProgress)].into_iter().enumerate() {
                    if !thorough && (ri + at) % 2 == 1 && at >= 4 {
                        continue;
                    }
                    out.balance();
                    let nm = name.to_string();
                    let mut seen = 0usize;
                    let rj = j::msg(&rep);
                    let bus = Rc::new(RefCell::new(ScriptedBus {
                        next: Box::new(move |_, m| {
                            let (ok, _) = if nm == "send_pages" { (State::PixelsReceived, State::PixelsFailed) } else { (State::ConfigReceived, State::ConfigFailed) };
                            Some(match m {
                                Message::Hello(_) => Reply::Msg(Message::ReportState(a_, State::Unconfigured)),
                                Message::RequestOperation(_, op) => Reply::Msg(Message::AckOperation(a_, *op)),
                                Message::QueryState(_) => Reply::Msg(Message::ReportState(a_, ok)),
                                Message::SendData(_, _) => {
                                    seen += 1;
                                    if seen == at + 1 { Reply::Msg(j::msg_from(&rj)) } else { Reply::None }
                                }
                                _ => Reply::None,
                            })
                        }),
                        log: vec![],
                        exhausted: false,
                    }));
                    let sign = Sign::new(bus.clone(), a_, typ);
                    let _ambient = ambient(&bus, a_, typ);
                    let pg: Vec<Page<'static>> = if name == "configure" { vec![] } else { pages.clone() };
                    let outc = run_call(&sign, name, &pg);
                    let b = bus.borrow();
                    emit_conversation(out, name, me, typ, &pg, &b.log, &outc);
                    runs += 1;
                }
            }
        }
    }
    json!({"chunk_reply_runs": runs})
}

pub fn record_c10(a: &Args) -> usize {
    let mut out = TraceOut::new(&a.out, "C10", a.shards);
    let d = record_directed_ctl(a, &mut out, true);
    println!("INFO {}", json!({"directed": d}));
    let adv = record_adversarial(a, &mut out, 0xC10, if a.tier == "thorough" { 40_000 } else { 2_000 });
    let _ = record_conclusions(a, &mut out);
    let _ = record_chunk_replies(a, &mut out);
    let mut small = Args { tier: "quick".into(), seed: a.seed, out: a.out.clone(), shards: a.shards, rest: vec![] };
    small.tier = "quick".into();
    let t = record_transfers(&small, &mut out, false);
    println!("INFO {}", json!({"adversarial": adv, "transfers": t}));
    out.finish()
}

/// Very long transfers for the C11 monitor: the (SendData, no reply) exchanges are left out of the recording (their number is
/// noted in the call event); everything C11 speaks about -- requests, counts, queries, their replies, the outcome -- is kept.
pub fn record_c11_heavy(a: &Args, out: &mut TraceOut) -> Value {
    let thorough = a.tier == "thorough";
    let mut runs = 0usize;
    let me = 0x0104u16;
    let a_ = Address(me);
    // (pages of 65 536 bytes, consecutive 'failed' reports before 'received')
    let mut cases: Vec<(usize, u32)> = vec![(6, 5), (6, 2), (1, 3)];
    if thorough {
        cases.extend_from_slice(&[(16, 4), (17, 3)]);
    }
    for (npages, failures) in cases {
        out.balance();
        let pages: Vec<Page<'static>> = (0..npages).map(|i| Page::new(PageId(i as u8), 65532, 1)).collect();
        let mut fails_left = failures;
        let bus = Rc::new(RefCell::new(ScriptedBus {
            next: Box::new(move |n, m| {
                if n > 2_000_000 {
                    return Some(Reply::BusError); // runaway guard
                }
                Some(match m {
                    Message::RequestOperation(_, op) => Reply::Msg(Message::AckOperation(a_, *op)),
                    Message::QueryState(_) => {
                        if fails_left > 0 {
                            fails_left -= 1;
                            Reply::Msg(Message::ReportState(a_, State::PixelsFailed))
                        } else {
                            Reply::Msg(Message::ReportState(a_, State::PixelsReceived))
                        }
                    }
                    _ => Reply::None,
                })
            }),
            log: vec![],
            exhausted: false,
        }));
        let typ = ALL_TYPES[(npages + failures as usize) % 11];
        let sign = Sign::new(bus.clone(), a_, typ);
        let _ambient = ambient(&bus, a_, typ);
        let outc = run_call(&sign, "send_pages", &pages);
        let b = bus.borrow();
        let kept: Vec<(Message<'static>, Reply)> = b.log.iter().filter(|(m, r)| !(matches!(m, Message::SendData(_, _)) && matches!(r, Reply::None))).map(|(m, r)| (m.clone(), reply_from(&reply_json(r)))).collect();
        let mut ev = call_event("send_pages", me, typ, &[]);
        ev["elided_data_exchanges"] = json!(b.log.len() - kept.len());
        out.emit(ev);
        for (m, r) in &kept {
            out.emit(json!({"e": "x", "m": j::msg(m), "r": reply_json(r)}));
        }
        out.emit(json!({"e": "ret", "out": outc}));
        runs += 1;
    }
    json!({"heavy_runs": runs})
}

pub fn record_c11(a: &Args) -> usize {
    let mut out = TraceOut::new(&a.out, "C11", a.shards);
    let _ = record_c11_heavy(a, &mut out);
    let adv = record_adversarial(a, &mut out, 0xC11, if a.tier == "thorough" { 40_000 } else { 2_000 });
    let d = record_directed_ctl(a, &mut out, false);
    let c = record_conclusions(a, &mut out);
    let _ = record_chunk_replies(a, &mut out);
    println!("INFO {}", json!({"adversarial": adv, "directed": d, "conclusions": c}));
    out.finish()
}

#[allow(dead_code)]
pub fn unused(_: Operation) {}
