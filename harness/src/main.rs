mod codec;
mod ctl;
mod sys;
mod twin;
mod j;
mod page;
mod serial;
mod util;
mod vsign;

use util::parse_args;

fn main() {
    let argv: Vec<String> = std::env::args().skip(1).collect();
    if argv.len() < 2 {
        eprintln!("usage: fdv record <Cnn> [--tier T] [--seed N] [--out DIR] [--shards K] | fdv replay <Cnn> <file|->");
        std::process::exit(2);
    }
    util::silence_panics();
    util::install_logger();
    let a = parse_args(&argv[2..]);
    let n = match (argv[0].as_str(), argv[1].as_str()) {
        ("record", "C01") => codec::record_c01(&a),
        ("record", "C02") => codec::record_c02(&a),
        ("record", "C03") => codec::record_c03(&a),
        ("record", "C04") => codec::record_c04(&a),
        ("record", "C05") => codec::record_c05(&a),
        ("record", "C12") => vsign::record_c12(&a),
        ("record", "C13") => vsign::record_c13(&a),
        ("record", "C14") => vsign::record_c14(&a),
        ("replay", "C13") => { vsign::replay_graph(&a.rest[0], false); 0 }
        ("replay", "C12") => { vsign::replay_graph(&a.rest[0], true); 0 }
        ("replay", "C14") => { vsign::replay_bus_graph(&a.rest[0]); 0 }
        ("record", "DISPLAY") => codec::record_display(&a),
        ("record", "C06") => page::record_c06(&a),
        ("record", "C07") => page::record_c07(&a),
        ("record", "C19") => page::record_c19(&a),
        ("replay", "C06") => { page::replay_c06(&a.rest[0]); 0 }
        ("replay", "C07") => { page::replay_c07(&a.rest[0]); 0 }
        ("record", "C15") => serial::record_c15(&a),
        ("record", "C16") => serial::record_c16(&a),
        ("record", "C18") => serial::record_c18(&a),
        ("record", "C20") => serial::record_c20(&a),
        ("record", "C17") => twin::record_c17(&a),
        ("record", "C08") => sys::record_c08(&a),
        ("record", "API") => sys::record_api(&a),
        ("record", "C09") => ctl::record_c09(&a),
        ("record", "C10") => ctl::record_c10(&a),
        ("record", "C11") => ctl::record_c11(&a),
        ("record", "CTLSCRIPTS") => ctl::record_from_scripts(&a.rest[0], &a, &a.rest[1]),
        ("replay", "CTL") => { ctl::replay_scripts(&a.rest[0]); 0 }
        ("replay", "C01") => { codec::replay_c01(&a.rest[0]); 0 }
        ("replay", "C03") => { codec::replay_c03(&a.rest[0]); 0 }
        ("replay", "C04") => { codec::replay_c04(&a.rest[0]); 0 }
        ("replay", "C05") => { codec::replay_c05(&a.rest[0]); 0 }
        (c, p) => {
            eprintln!("unknown command {} {}", c, p);
            std::process::exit(2);
        }
    };
    if argv[0] == "record" {
        println!("RECORDED {}", n);
    }
}
