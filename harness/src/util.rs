use std::fs::File;
use std::io::{BufRead, BufReader, BufWriter, Write};
use std::panic::{self, AssertUnwindSafe};
use std::path::{Path, PathBuf};

use serde_json::Value;

/// Writes NDJSON events to `<dir>/<name>.<shard>.ndjson`, rotating shards round-robin by *segment*.
pub struct TraceOut {
    writers: Vec<BufWriter<File>>,
    pub counts: Vec<usize>,
    cur: usize,
    bytes: u64,
}

/// A recorder that writes more than this is broken (a quadratic blow-up): stop instead of filling the disk.
const MAX_TRACE_BYTES: u64 = 10 << 30;

impl TraceOut {
    pub fn new(dir: &Path, name: &str, shards: usize) -> Self {
        std::fs::create_dir_all(dir).expect("create trace dir");
        let mut writers = Vec::new();
        for i in 0..shards {
            let p: PathBuf = dir.join(format!("{}.{}.ndjson", name, i));
            writers.push(BufWriter::new(File::create(p).expect("create trace file")));
        }
        TraceOut { writers, counts: vec![0; shards], cur: 0, bytes: 0 }
    }

    /// Moves to the next shard (call between independent segments).
    pub fn next_shard(&mut self) {
        self.cur = (self.cur + 1) % self.writers.len();
    }

    /// Picks the currently smallest shard.
    pub fn balance(&mut self) {
        let mut best = 0;
        for i in 0..self.counts.len() {
            if self.counts[i] < self.counts[best] {
                best = i;
            }
        }
        self.cur = best;
    }

    pub fn emit(&mut self, v: Value) {
        let w = &mut self.writers[self.cur];
        let line = serde_json::to_vec(&v).expect("encode event");
        self.bytes += line.len() as u64 + 1;
        if self.bytes > MAX_TRACE_BYTES {
            eprintln!("fdv: trace output exceeds {} bytes - recorder bug, aborting", MAX_TRACE_BYTES);
            std::process::exit(3);
        }
        w.write_all(&line).expect("write event");
        w.write_all(b"\n").expect("write newline");
        self.counts[self.cur] += 1;
    }

    pub fn finish(mut self) -> usize {
        for w in &mut self.writers {
            w.flush().expect("flush");
        }
        self.counts.iter().sum()
    }
}

pub fn read_lines(path: &str) -> impl Iterator<Item = Value> {
    let f: Box<dyn std::io::Read> = if path == "-" { Box::new(std::io::stdin()) } else { Box::new(File::open(path).expect("open input")) };
    BufReader::new(f).lines().filter_map(|l| {
        let l = l.expect("read line");
        if l.trim().is_empty() { None } else { Some(serde_json::from_str::<Value>(&l).expect("json line")) }
    })
}

/// Runs `f`, turning a panic into `Err(message)`.
pub fn catch<T>(f: impl FnOnce() -> T) -> Result<T, String> {
    match panic::catch_unwind(AssertUnwindSafe(f)) {
        Ok(v) => Ok(v),
        Err(e) => {
            let s = if let Some(s) = e.downcast_ref::<&str>() {
                s.to_string()
            } else if let Some(s) = e.downcast_ref::<String>() {
                s.clone()
            } else {
                "panic".to_string()
            };
            Err(s)
        }
    }
}

pub fn silence_panics() {
    panic::set_hook(Box::new(|_| {}));
}

pub struct Args {
    pub tier: String,
    pub seed: u64,
    pub out: PathBuf,
    pub shards: usize,
    pub rest: Vec<String>,
}

pub fn parse_args(args: &[String]) -> Args {
    let mut a = Args { tier: "quick".into(), seed: 1, out: PathBuf::from("traces"), shards: 1, rest: vec![] };
    let mut i = 0;
    while i < args.len() {
        match args[i].as_str() {
            "--tier" => {
                a.tier = args[i + 1].clone();
                i += 1;
            }
            "--seed" => {
                a.seed = args[i + 1].parse().expect("seed");
                i += 1;
            }
            "--out" => {
                a.out = PathBuf::from(&args[i + 1]);
                i += 1;
            }
            "--shards" => {
                a.shards = args[i + 1].parse().expect("shards");
                i += 1;
            }
            other => a.rest.push(other.to_string()),
        }
        i += 1;
    }
    a
}

/// Replay-side mismatch reporting: one JSON line per mismatch on stdout, prefixed "MISMATCH ".
pub struct Report {
    pub checked: usize,
    pub mismatches: usize,
    pub max_print: usize,
}

impl Report {
    pub fn new() -> Self {
        Report { checked: 0, mismatches: 0, max_print: 20 }
    }
    pub fn ok(&mut self) {
        self.checked += 1;
    }
    pub fn mismatch(&mut self, v: Value) {
        self.checked += 1;
        self.mismatches += 1;
        if self.mismatches <= self.max_print {
            println!("MISMATCH {}", v);
        }
    }
    pub fn cmp(&mut self, what: &str, ctx: &Value, expected: &Value, observed: &Value) -> bool {
        if expected == observed {
            self.ok();
            true
        } else {
            self.mismatch(serde_json::json!({"what": what, "ctx": ctx, "expected": expected, "observed": observed}));
            false
        }
    }
    pub fn finish(&self, extra: Value) {
        println!("REPLAY_SUMMARY {}", serde_json::json!({"checked": self.checked, "mismatches": self.mismatches, "extra": extra}));
    }
}


/// A logger that accepts everything and discards it.  With it installed and the level raised, the arguments of the
/// library's log macros are really evaluated (they are not when logging is off), so behaviour that hides in a log
/// statement is exercised.  Recorders switch logging on and off between runs: both modes are covered.
struct NullLogger;
impl log::Log for NullLogger {
    fn enabled(&self, _: &log::Metadata) -> bool {
        true
    }
    fn log(&self, record: &log::Record) {
        // format the arguments (Display impls run), then drop the text
        let _ = format!("{}", record.args());
    }
    fn flush(&self) {}
}
static NULL_LOGGER: NullLogger = NullLogger;

pub fn install_logger() {
    let _ = log::set_logger(&NULL_LOGGER);
    log::set_max_level(log::LevelFilter::Off);
}

pub fn logging(on: bool) {
    log::set_max_level(if on { log::LevelFilter::Trace } else { log::LevelFilter::Off });
}
