//! C01-C05: frame codec, decoder, message mapping.  `record_*` write NDJSON traces of what the real
//! code did (validated by TLC against spec/Frame.tla, spec/Message.tla); `replay_*` take vectors that
//! TLC generated from the specification and compare the real code against them.
use flipdot_core::{Address, ChunkCount, Data, Frame, Message, MsgType, Offset};
use rand::rngs::StdRng;
use rand::{Rng, SeedableRng};
use serde_json::{Value, json};

use crate::j;
use crate::util::{Args, Report, TraceOut, catch, read_lines};

/// Hex text of a frame, written here only to build *inputs* (seeds for mutation, strings to damage) even when the
/// library's own encoder panics; it is never used as an oracle.
pub fn seed_encoding(addr: u16, ty: u8, data: &[u8], nl: bool) -> Vec<u8> {
    let mut payload = vec![data.len() as u8, (addr >> 8) as u8, addr as u8, ty];
    payload.extend_from_slice(data);
    let sum = payload.iter().fold(0u8, |a, &b| a.wrapping_add(b));
    payload.push(0u8.wrapping_sub(sum));
    let mut s = vec![b':'];
    for b in payload {
        s.extend_from_slice(format!("{:02X}", b).as_bytes());
    }
    if nl {
        s.extend_from_slice(b"\r\n");
    }
    s
}

fn rand_len(rng: &mut StdRng) -> usize {
    match rng.gen_range(0..100) {
        0..=59 => rng.gen_range(0..=4),
        60..=84 => rng.gen_range(5..=20),
        85..=94 => rng.gen_range(21..=64),
        95..=97 => rng.gen_range(65..=253),
        _ => rng.gen_range(254..=255),
    }
}

fn rand_bytes(rng: &mut StdRng, n: usize) -> Vec<u8> {
    (0..n)
        .map(|_| match rng.gen_range(0..10) {
            0 => 0x00,
            1 => 0xFF,
            2 => 0x0A,
            3 => 0x0D,
            4 => 0x3A,
            _ => rng.r#gen::<u8>(),
        })
        .collect()
}

fn decode(bytes: &[u8]) -> Value {
    match catch(|| Frame::from_bytes(bytes)) {
        Ok(r) => j::decode_result(&r),
        Err(_) => j::panic_result(),
    }
}

/// A frame (address, type, data) whose length + address bytes + type + data bytes add up to exactly `total` (None when no
/// frame can): every checksum implementation folds these bytes, and narrower accumulators break at particular totals.
pub fn frame_with_total(total: u32, rng: &mut StdRng) -> Option<(u16, u8, Vec<u8>)> {
    for n in 0..=255u32 {
        if total < n || total - n > 255 * (n + 3) {
            continue;
        }
        // spread total - n over the n + 3 byte slots, each 0..=255, with some randomness in the order
        let slots = (n + 3) as usize;
        let mut v = vec![0u32; slots];
        let mut rest = total - n;
        let start = rng.gen_range(0..slots);
        for k in 0..slots {
            let i = (start + k) % slots;
            let take = rest.min(255);
            v[i] = take;
            rest -= take;
        }
        let addr = ((v[0] as u16) << 8) | v[1] as u16;
        return Some((addr, v[2] as u8, v[3..].iter().map(|x| *x as u8).collect()));
    }
    None
}

/// Byte totals at which narrow or signed accumulators misbehave: powers of two and their neighbours, up to the maximum 66045.
pub fn special_totals() -> Vec<u32> {
    let mut t = vec![0u32, 1, 66045, 66044, 65791, 65790, 65792];
    for p in 7..=16u32 {
        for d in [-1i64, 0, 1] {
            t.push(((1i64 << p) + d) as u32);
        }
    }
    t.push(0x8000 + 0x100);
    t.push(0xFF00);
    t
}

fn frame_event(addr: u16, ty: u8, data: &[u8], owned: bool) -> Value {
    // a panic anywhere in the codec is data: the event then carries empty encodings and result kind "panic"
    match catch(|| frame_event_inner(addr, ty, data, owned)) {
        Ok(v) => v,
        Err(_) => json!({"e": "frame", "addr": addr, "type": ty, "data": j::bytes(data), "owned": owned, "getters": false, "enc": [], "encnl": [],
                         "dec": j::panic_result(), "deceq": false, "decnl": j::panic_result(), "decnleq": false}),
    }
}

fn frame_event_inner(addr: u16, ty: u8, data: &[u8], owned: bool) -> Value {
    // Build the frame with owned or borrowed data.
    let frame = if owned {
        Frame::new(Address(addr), MsgType(ty), Data::try_new(data.to_vec()).unwrap())
    } else {
        Frame::new(Address(addr), MsgType(ty), Data::try_new(data).unwrap())
    };
    let enc = frame.to_bytes();
    let encnl = frame.to_bytes_with_newline();
    // getters must return what was put in
    let getters_ok = frame.address() == Address(addr) && frame.message_type() == MsgType(ty) && frame.data().as_ref() == data;
    let dec = match catch(|| Frame::from_bytes(&enc)) {
        Ok(r) => {
            let eq = matches!(&r, Ok(f) if *f == frame);
            (j::decode_result(&r), eq)
        }
        Err(_) => (j::panic_result(), false),
    };
    let decnl = match catch(|| Frame::from_bytes(&encnl)) {
        Ok(r) => {
            let eq = matches!(&r, Ok(f) if *f == frame);
            (j::decode_result(&r), eq)
        }
        Err(_) => (j::panic_result(), false),
    };
    json!({"e": "frame", "addr": addr, "type": ty, "data": j::bytes(data), "owned": owned,
           "getters": getters_ok, "enc": j::bytes(&enc), "encnl": j::bytes(&encnl),
           "dec": dec.0, "deceq": dec.1, "decnl": decnl.0, "decnleq": decnl.1})
}

fn trynew_event(len: usize, owned: bool) -> Value {
    let v = vec![0xA5u8; len];
    let r = if owned { Data::try_new(v.clone()) } else { Data::try_new(v.as_slice()) };
    match r {
        Ok(d) => json!({"e": "trynew", "len": len, "owned": owned, "res": "ok", "max": 0, "actual": 0, "kept": d.get().len()}),
        Err(flipdot_core::FrameError::DataTooLong { max, actual }) => {
            json!({"e": "trynew", "len": len, "owned": owned, "res": "toolong", "max": max, "actual": actual, "kept": 0})
        }
        Err(_) => json!({"e": "trynew", "len": len, "owned": owned, "res": "othererr", "max": 0, "actual": 0, "kept": 0}),
    }
}

pub fn record_c01(a: &Args) -> usize {
    let thorough = a.tier == "thorough";
    let mut rng = StdRng::seed_from_u64(a.seed ^ 0xC01);
    let mut out = TraceOut::new(&a.out, "C01", a.shards);
    let mut n = 0usize;
    let mut emit = |out: &mut TraceOut, v: Value| {
        out.emit(v);
        n += 1;
        if n % 64 == 0 {
            out.next_shard();
        }
    };
    // addresses: all of them (thorough) or a stratified sample incl. byte boundaries
    let addrs: Vec<u16> = if thorough {
        (0..=0xFFFFu32).map(|x| x as u16).collect()
    } else {
        let mut v: Vec<u16> = vec![0, 1, 0x7F, 0x80, 0xFF, 0x100, 0x101, 0x1234, 0x7FFF, 0x8000, 0xFF00, 0xFFFE, 0xFFFF];
        for i in 0..2048u32 {
            v.push((i * 32 + rng.gen_range(0..32)) as u16);
        }
        v
    };
    for (i, &addr) in addrs.iter().enumerate() {
        let len = rand_len(&mut rng);
        let data = rand_bytes(&mut rng, len);
        emit(&mut out, frame_event(addr, rng.r#gen(), &data, i % 2 == 0));
    }
    for ty in 0..=255u8 {
        let len = rand_len(&mut rng);
        let data = rand_bytes(&mut rng, len);
        emit(&mut out, frame_event(rng.r#gen(), ty, &data, ty % 2 == 1));
    }
    for len in 0..=255usize {
        let data = rand_bytes(&mut rng, len);
        emit(&mut out, frame_event(rng.r#gen(), rng.r#gen(), &data, len % 2 == 0));
    }
    // every byte value as the only data byte, and homogeneous blocks
    for b in 0..=255u8 {
        emit(&mut out, frame_event(rng.r#gen(), rng.r#gen(), &[b], b % 2 == 0));
    }
    for &b in &[0x00u8, 0xFF, 0x80, 0x7F] {
        for &len in &[254usize, 255] {
            emit(&mut out, frame_event(0xFFFF, 0xFF, &vec![b; len], true));
            emit(&mut out, frame_event(0, 0, &vec![b; len], false));
        }
    }
    // frames whose bytes add up to special totals (powers of two and their neighbours up to the maximum)
    for total in special_totals() {
        for rep in 0..2 {
            if let Some((addr, ty, data)) = frame_with_total(total, &mut rng) {
                emit(&mut out, frame_event(addr, ty, &data, rep == 0));
            }
        }
    }
    // over-long lines decode to an error, never to a frame with more than 255 data bytes
    for count in [256usize, 257, 511, 512, 768] {
        let mut payload = vec![(count % 256) as u8, 0x12, 0x34, 0x00];
        payload.extend((0..count).map(|i| (i * 5) as u8));
        let sum = payload.iter().fold(0u8, |a, &b| a.wrapping_add(b));
        payload.push(0u8.wrapping_sub(sum));
        let mut t = vec![b':'];
        for b in &payload {
            t.extend_from_slice(format!("{:02X}", b).as_bytes());
        }
        emit(&mut out, decode_event(&t));
    }
    for &len in &[0usize, 1, 254, 255, 256, 257, 258, 511, 512, 1000, 65535, 65536, 65537, 65791, 65792, 70000, 131072, 131077, (1 << 20) + 44, 1 << 24] {
        emit(&mut out, trynew_event(len, true));
        emit(&mut out, trynew_event(len, false));
    }
    out.finish()
}

// ---------------------------------------------------------------- C02

/// Decoding through the stream entry point: Frame::read on the damaged bytes (it takes the first line).
fn decode_via_read(s: &[u8]) -> Value {
    let mut cur = std::io::Cursor::new(s.to_vec());
    match catch(|| Frame::read(&mut cur).map(|f| j::frame_from(&j::frame(&f)))) {
        Ok(r) => j::decode_result(&r),
        Err(_) => j::panic_result(),
    }
}

fn damage_all(out: &mut TraceOut, enc: &[u8]) {
    let l = enc.len();
    let mut push = |op: &str, i: usize, c: u32, s: &[u8]| {
        out.emit(json!({"e": "damage", "op": op, "i": i, "c": c, "res": decode(s), "res_read": decode_via_read(s)}));
    };
    for i in 0..l {
        for c in 0..=255u8 {
            let mut s = enc.to_vec();
            s[i] = c;
            push("subst", i + 1, c as u32, &s);
        }
    }
    for i in 0..l {
        let mut s = enc.to_vec();
        let _ = s.remove(i);
        push("del", i + 1, 0, &s);
        let mut s = enc.to_vec();
        s.insert(i, enc[i]);
        push("dup", i + 1, 0, &s);
    }
    for i in 0..l.saturating_sub(1) {
        if enc[i] != enc[i + 1] {
            let mut s = enc.to_vec();
            s.swap(i, i + 1);
            push("swap", i + 1, 0, &s);
        }
    }
    for k in 0..l {
        push("prefix", k, 0, &enc[..k]);
    }
}

pub fn record_c02(a: &Args) -> usize {
    let thorough = a.tier == "thorough";
    let mut rng = StdRng::seed_from_u64(a.seed ^ 0xC02);
    let mut out = TraceOut::new(&a.out, "C02", a.shards);
    let mut frames: Vec<(u16, u8, Vec<u8>)> = vec![
        (0, 0, vec![]),
        (0xFFFF, 0xFF, vec![0xFF]),
        (0x1234, 4, vec![0x0F]),
        (3, 3, vec![0xA1]),
        (0x00FF, 0, vec![0x00, 0x10]),
    ];
    // frames whose tail is the image of another complete frame: data = [filler.., balancing byte, inner length, inner
    // address, inner type, inner data..]; the outer checksum then equals the inner one, so cutting the text in front of
    // the inner image leaves a valid frame (a decoder that resynchronises inside a line would accept it)
    for (fill, inner_data) in [(0usize, vec![]), (1, vec![0x1F]), (3, vec![1, 2, 3])] {
        let (ia, it) = (0x0103u16, 0x1Fu8);
        let inner: Vec<u8> = [vec![inner_data.len() as u8, (ia >> 8) as u8, ia as u8, it], inner_data.clone()].concat();
        let filler: Vec<u8> = (0..fill).map(|i| 0x40 + i as u8).collect();
        let n = filler.len() + 1 + inner.len();
        let (oa, ot) = (0x2000u16, 0u8);
        let head_sum = [n as u8, (oa >> 8) as u8, oa as u8, ot].iter().chain(filler.iter()).fold(0u8, |a, &b| a.wrapping_add(b));
        let balance = 0u8.wrapping_sub(head_sum);
        let data: Vec<u8> = [filler, vec![balance], inner].concat();
        frames.push((oa, ot, data));
    }
    let n_rand = if thorough { 40 } else { 3 };
    for _ in 0..n_rand {
        let len = if thorough { rng.gen_range(0..=24) } else { rng.gen_range(0..=3) };
        frames.push((rng.r#gen(), rng.r#gen(), rand_bytes(&mut rng, len)));
    }
    if thorough {
        frames.push((0xABCD, 0, rand_bytes(&mut rng, 255)));
        frames.push((0x0001, 0, vec![0xFF; 254]));
        frames.push((0x8000, 0x80, rand_bytes(&mut rng, 100)));
    }
    // hex text whose length field or checksum is inconsistent in other ways than by one damaged character:
    // declared length off by 1, 128, 256 (more than 255 data pairs), wrong checksums, both digit cases
    out.balance();
    for _ in 0..(if thorough { 3000 } else { 300 }) {
        let t = synth(&mut rng);
        out.emit(json!({"e": "accept", "s": j::bytes(&t), "res": decode(&t)}));
    }
    for count in [256usize, 257, 300, 511, 512, 513, 768, 1000] {
        for fix in [0u8, 1] {
            let mut payload = vec![(count % 256) as u8, 0xAB, 0xCD, 0x00];
            payload.extend((0..count).map(|i| (i * 7) as u8));
            let sum = payload.iter().fold(0u8, |a, &b| a.wrapping_add(b));
            payload.push(0u8.wrapping_sub(sum).wrapping_add(fix));
            let mut t = vec![b':'];
            for b in &payload {
                t.extend_from_slice(format!("{:02X}", b).as_bytes());
            }
            out.emit(json!({"e": "accept", "s": j::bytes(&t), "res": decode(&t)}));
        }
    }
    for (addr, ty, data) in frames {
        for nl in [false, true] {
            out.balance();
            let enc = seed_encoding(addr, ty, &data, nl);
            out.emit(json!({"e": "valid", "addr": addr, "type": ty, "data": j::bytes(&data), "nl": nl, "enc": j::bytes(&enc)}));
            damage_all(&mut out, &enc);
        }
    }
    out.finish()
}

// ---------------------------------------------------------------- C03

fn decode_event(s: &[u8]) -> Value {
    let (res, reenc) = match catch(|| Frame::from_bytes(s)) {
        Ok(r) => {
            // (re-encoding under observation too: a crash of the encoder is recorded as a decode that panicked)
            let reenc = match &r {
                Ok(f) => catch(|| f.to_bytes()),
                Err(_) => Ok(vec![]),
            };
            match reenc {
                Ok(re) => (j::decode_result(&r), re),
                Err(_) => (j::panic_result(), vec![]),
            }
        }
        Err(_) => (j::panic_result(), vec![]),
    };
    json!({"e": "decode", "s": j::bytes(s), "res": res, "reenc": j::bytes(&reenc)})
}

fn mutate(rng: &mut StdRng, s: &mut Vec<u8>) {
    const STRUCT: &[u8] = b":0123456789ABCDEFabcdefGg\r\n\x00\xFF xX";
    let pick = |rng: &mut StdRng| -> u8 { if rng.gen_bool(0.7) { STRUCT[rng.gen_range(0..STRUCT.len())] } else { rng.r#gen() } };
    match rng.gen_range(0..12) {
        0 => {
            if !s.is_empty() {
                let i = rng.gen_range(0..s.len());
                s[i] = pick(rng);
            }
        }
        1 => {
            let i = rng.gen_range(0..=s.len());
            s.insert(i, pick(rng));
        }
        2 => {
            if !s.is_empty() {
                let i = rng.gen_range(0..s.len());
                let _ = s.remove(i);
            }
        }
        3 => {
            // flip case of a letter
            for _ in 0..3 {
                if !s.is_empty() {
                    let i = rng.gen_range(0..s.len());
                    if s[i].is_ascii_alphabetic() {
                        s[i] ^= 0x20;
                    }
                }
            }
        }
        4 => s.extend_from_slice(b"\r\n"),
        5 => s.push(b'\n'),
        6 => s.push(b'\r'),
        7 => {
            if s.len() >= 2 {
                s.truncate(s.len() - rng.gen_range(1..=2));
            }
        }
        8 => {
            // splice another frame after it
            s.extend_from_slice(&seed_encoding(rng.r#gen(), rng.r#gen(), &[rng.r#gen()], false));
        }
        9 => {
            let i = rng.gen_range(0..=s.len());
            let c = b"0123456789abcdefABCDEF"[rng.gen_range(0..22)];
            s.insert(i, c);
        }
        10 => {
            if s.len() > 2 && rng.gen_bool(0.5) {
                // a multi-byte UTF-8 digit / letter look-alike in place of one character
                const LA: [&[u8]; 6] = [b"\xD9\xA3", b"\xEF\xBC\x95", b"\xEF\xBC\xA2", b"\xE0\xA5\xA7", b"\xC2\xB3", b"\xF0\x9D\x9F\x97"];
                let i = rng.gen_range(1..s.len());
                let la = LA[rng.gen_range(0..LA.len())];
                let _ = s.splice(i..i + 1, la.iter().copied());
            } else {
                s.insert(0, pick(rng));
            }
        }
        _ => {
            // lower-case everything
            for b in s.iter_mut() {
                if rng.gen_bool(0.5) {
                    *b = b.to_ascii_lowercase();
                }
            }
        }
    }
}

/// Field-aware synthesis: hex text whose declared length, checksum, digit case and terminator are chosen
/// independently of the data, so that every verdict class (ok / mismatch / badsum / invalid) is reached often.
fn synth(rng: &mut StdRng) -> Vec<u8> {
    let n = match rng.gen_range(0..10) {
        0..=5 => rng.gen_range(0..=4usize),
        6..=7 => rng.gen_range(5..=40),
        8 => rng.gen_range(120..=136),
        _ => rng.gen_range(250..=260),
    };
    let data = match rng.gen_range(0..12) {
        0 => vec![0xFF; n],
        1 => vec![rng.r#gen(); n],
        _ => rand_bytes(rng, n),
    };
    let declared: u8 = match rng.gen_range(0..8) {
        0..=2 => n as u8,
        3 => (n as u8).wrapping_add(1),
        4 => (n as u8).wrapping_sub(1),
        5 => (n as u8) ^ 0x80,
        6 => (n as u8).wrapping_add(128),
        _ => rng.r#gen(),
    };
    let addr: u16 = if rng.gen_bool(0.15) { 0xFFFF } else { rng.r#gen() };
    let ty: u8 = if rng.gen_bool(0.15) { 0xFF } else { rng.r#gen() };
    let mut payload = vec![declared, (addr >> 8) as u8, addr as u8, ty];
    payload.extend_from_slice(&data);
    let sum = payload.iter().fold(0u8, |a, &b| a.wrapping_add(b));
    let good = 0u8.wrapping_sub(sum);
    let chk = match rng.gen_range(0..6) {
        0..=2 => good,
        3 => good ^ (1 << rng.gen_range(0..8)),
        4 => sum,
        _ => rng.r#gen(),
    };
    payload.push(chk);
    let style = rng.gen_range(0..4);
    let mut s = vec![b':'];
    for (i, b) in payload.iter().enumerate() {
        let t = match style {
            0 => format!("{:02X}", b),
            1 => format!("{:02x}", b),
            2 => {
                if i % 2 == 0 { format!("{:02X}", b) } else { format!("{:02x}", b) }
            }
            _ => {
                let u = format!("{:02X}", b).into_bytes();
                let l = format!("{:02x}", b).into_bytes();
                String::from_utf8(vec![if rng.gen_bool(0.5) { u[0] } else { l[0] }, if rng.gen_bool(0.5) { u[1] } else { l[1] }]).unwrap()
            }
        };
        s.extend_from_slice(t.as_bytes());
    }
    match rng.gen_range(0..8) {
        0..=2 => s.extend_from_slice(b"\r\n"),
        3 => s.push(b'\n'),
        4 => s.extend_from_slice(b"\r\n\r\n"),
        _ => {}
    }
    s
}

pub fn record_c03(a: &Args) -> usize {
    let thorough = a.tier == "thorough";
    let mut rng = StdRng::seed_from_u64(a.seed ^ 0xC03);
    let mut out = TraceOut::new(&a.out, "C03", a.shards);
    let total = if thorough { 120_000 } else { 4_000 };
    let mut n = 0;
    // fixed corner cases first
    let fixed: Vec<&[u8]> = vec![
        b"", b":", b"\r\n", b"\n", b"\r", b":\r\n", b":00000000", b":0000000000", b":0000000000\r\n", b":0000000000\n",
        b":0000000000\r", b":0000000000\r\n\r\n", b":0000000000\r\n:0000000000", b" :0000000000", b":0000000000 ",
        b"::0000000000", b":00000000000", b":000000000", b":01000000FF00", b":0100000000FF", b":010000000000",
        b":0200000000FE", b":00000001FF", b":00000001ff", b":00000001Ff", b":00000001FG", b":00000001F\xFF", b"\x00:0000000000",
        b":0000000000\x00", b"\n:0000000000", b":0000000000\n\r", b":FF00000001", b":ff00000001",
    ];
    for s in fixed {
        out.emit(decode_event(s));
        n += 1;
    }
    // extreme field values: the largest possible byte sums (all 0xFF), with a right and a wrong checksum, both cases of digits
    for len in [0usize, 1, 252, 253, 254, 255] {
        for (addr, ty) in [(0xFFFFu16, 0xFFu8), (0xFFFE, 0xFF), (0x0200, 0xFE), (0, 0)] {
            for fill in [0xFFu8, 0xFE, 0x00, 0x80] {
                let mut d = vec![fill; len];
                if len > 2 && fill == 0xFF && addr == 0x0200 {
                    d[0] = 2;
                    d[1] = 0;
                }
                let good = seed_encoding(addr, ty, &d, len % 2 == 0);
                out.emit(decode_event(&good));
                out.emit(decode_event(&good.to_ascii_lowercase()));
                let mut bad = good.clone();
                let k = bad.len() - if len % 2 == 0 { 3 } else { 1 };
                bad[k] = if bad[k] == b'0' { b'1' } else { b'0' };
                out.emit(decode_event(&bad));
                n += 3;
            }
        }
    }
    // over-long lines: more than 255 data pairs whose length field is the count modulo 256 and whose checksum is right
    let long_counts: Vec<usize> = if thorough { vec![256, 257, 300, 511, 512, 513, 1000, 2042, 2043, 2048, 4096, 8192, 32768, 40000] } else { vec![256, 257, 300, 511, 512, 513, 1000, 2042, 2043, 2048, 5000] };
    for total in special_totals() {
        if let Some((addr, ty, data)) = frame_with_total(total, &mut rng) {
            let good = seed_encoding(addr, ty, &data, total % 2 == 0);
            out.emit(decode_event(&good));
            let mut bad = good.clone();
            let k = bad.len() - if total % 2 == 0 { 3 } else { 1 };
            bad[k] = if bad[k] == b'7' { b'8' } else { b'7' };
            out.emit(decode_event(&bad));
            n += 2;
        }
    }
    for count in long_counts {
        let mut payload = vec![(count % 256) as u8, 0x00, 0x02, 0x00];
        payload.extend((0..count).map(|i| (i * 3) as u8));
        let sum = payload.iter().fold(0u8, |a, &b| a.wrapping_add(b));
        payload.push(0u8.wrapping_sub(sum));
        let mut t = vec![b':'];
        for b in &payload {
            t.extend_from_slice(format!("{:02X}", b).as_bytes());
        }
        out.emit(decode_event(&t));
        t.extend_from_slice(b"\r\n");
        out.emit(decode_event(&t));
        n += 2;
    }
    // multi-byte UTF-8 look-alikes of digits and hex letters in a digit position of an otherwise well-formed frame
    let lookalikes: Vec<&[u8]> = vec![
        b"\xD9\xA0", b"\xD9\xA9", b"\xDB\xB5", b"\xE0\xA5\xA6", b"\xE0\xA5\xAF", b"\xEF\xBC\x90", b"\xEF\xBC\x99", b"\xEF\xBC\xA1", b"\xEF\xBC\xA6",
        b"\xEF\xBD\x81", b"\xEF\xBD\x86", b"\xC2\xB2", b"\xC2\xBD", b"\xE2\x85\xA7", b"\xF0\x9D\x9F\x8E", b"\xF0\x9D\x9F\xBF", b"\xE1\x9F\xA0", b"\xE0\xB9\x90",
    ];
    for (li, la) in lookalikes.iter().enumerate() {
        for (fi, base) in [seed_encoding(0, 0, &[], false), seed_encoding(0x1234, 4, &[0x0F], true), seed_encoding(3, 0, &[1, 2, 3], false)].iter().enumerate() {
            let body = base.len() - if fi == 1 { 2 } else { 0 };
            for pos in 1..body {
                if (pos + li + fi) % 3 != 0 && pos != body - 1 && pos != 1 {
                    continue;
                }
                let mut t = base[..pos].to_vec();
                t.extend_from_slice(la);
                t.extend_from_slice(&base[pos + 1..]);
                out.emit(decode_event(&t));
                n += 1;
            }
        }
    }
    while n < total {
        if n % 50 == 0 {
            out.next_shard();
        }
        let kind = rng.gen_range(0..13);
        let mut s: Vec<u8> = if kind >= 10 {
            synth(&mut rng)
        } else if kind == 0 {
            // pure noise over all byte values
            let len = rng.gen_range(0..40);
            (0..len).map(|_| rng.r#gen()).collect()
        } else if kind == 1 {
            // noise over the structural alphabet
            let len = rng.gen_range(0..30);
            (0..len).map(|_| b":0123456789ABCDEFabcdefG\r\n\x00\xFF"[rng.gen_range(0..28)]).collect()
        } else {
            let len = if kind == 2 && thorough { rng.gen_range(100..=255) } else if kind == 2 { rng.gen_range(20..=120) } else { rand_len(&mut rng).min(40) };
            let d = rand_bytes(&mut rng, len);
            seed_encoding(rng.r#gen(), rng.r#gen(), &d, rng.gen_bool(0.5))
        };
        let muts = match rng.gen_range(0..10) {
            0..=1 => 0,
            2..=6 => 1,
            7..=8 => 2,
            _ => rng.gen_range(3..6),
        };
        for _ in 0..muts {
            mutate(&mut rng, &mut s);
        }
        out.emit(decode_event(&s));
        n += 1;
    }
    out.finish()
}

// ---------------------------------------------------------------- C04

fn f2m_event(addr: u16, ty: u8, data: &[u8], owned: bool) -> Value {
    let frame = if owned { j::mk_frame(addr, ty, data) } else { Frame::new(Address(addr), MsgType(ty), Data::try_new(data).unwrap()) };
    let r = catch(|| {
        let m = Message::from(frame.clone());
        let mj = j::msg(&m);
        let back = Frame::from(m);
        (mj, j::frame(&back), back == frame)
    });
    match r {
        Ok((mj, back, eq)) => json!({"e": "f2m", "addr": addr, "type": ty, "data": j::bytes(data), "msg": mj, "back": back, "backeq": eq}),
        Err(_) => json!({"e": "f2m", "addr": addr, "type": ty, "data": j::bytes(data), "msg": j::reply(&None), "back": {"addr":0,"type":0,"data":[]}, "backeq": false, "panic": true}),
    }
}

/// (type, data) of the 31 recognised codes; SendData gets some data.
fn recognised_codes() -> Vec<(u8, Vec<u8>)> {
    let mut v: Vec<(u8, Vec<u8>)> = vec![(0, vec![1, 2, 3]), (1, vec![]), (2, vec![0xFF]), (2, vec![0x00]), (2, vec![0x55]), (6, vec![0x00])];
    for s in j::STATES {
        let f = Frame::from(Message::ReportState(Address(0), s));
        v.push((f.message_type().0, f.data().to_vec()));
    }
    for o in j::OPS {
        let f = Frame::from(Message::RequestOperation(Address(0), o));
        v.push((f.message_type().0, f.data().to_vec()));
        let f = Frame::from(Message::AckOperation(Address(0), o));
        v.push((f.message_type().0, f.data().to_vec()));
    }
    v
}

fn sample_addrs(rng: &mut StdRng, thorough: bool, n_quick: u32) -> Vec<u16> {
    if thorough {
        (0..=0xFFFFu32).map(|x| x as u16).collect()
    } else {
        let mut v: Vec<u16> = vec![0, 1, 2, 3, 0x7F, 0x80, 0xFF, 0x100, 0x101, 0x1FF, 0x200, 0x1234, 0x7FFF, 0x8000, 0x8001, 0xFEFF, 0xFF00, 0xFFFE, 0xFFFF];
        let step = 65536 / n_quick;
        for i in 0..n_quick {
            v.push((i * step + rng.gen_range(0..step)) as u16);
        }
        v
    }
}

pub fn record_c04(a: &Args) -> usize {
    let thorough = a.tier == "thorough";
    let mut rng = StdRng::seed_from_u64(a.seed ^ 0xC04);
    let mut out = TraceOut::new(&a.out, "C04", a.shards);
    let mut n = 0usize;
    let mut emit = |out: &mut TraceOut, v: Value| {
        out.emit(v);
        n += 1;
        if n % 256 == 0 {
            out.next_shard();
        }
    };
    let codes = recognised_codes();
    let addrs = sample_addrs(&mut rng, thorough, 200);
    for (ty, data) in &codes {
        for &addr in &addrs {
            emit(&mut out, f2m_event(addr, *ty, data, addr % 2 == 0));
        }
    }
    // every type x every first byte at lengths 0,1,2 for one random address each (the table's near misses)
    for ty in 0..=255u8 {
        emit(&mut out, f2m_event(rng.r#gen(), ty, &[], true));
        for b in 0..=255u8 {
            if thorough || ty <= 8 || b % 16 == ty % 16 || rng.gen_bool(0.02) {
                emit(&mut out, f2m_event(rng.r#gen(), ty, &[b], b % 2 == 0));
                if thorough || rng.gen_bool(0.3) {
                    emit(&mut out, f2m_event(rng.r#gen(), ty, &[b, rng.r#gen()], false));
                }
            }
        }
    }
    // every low type x every recognised code as the first byte x many lengths (the table is keyed on type, length and
    // first byte: a frame that agrees with an entry in two of the three must still be unknown)
    let codes = recognised_codes();
    let lens: Vec<usize> = if thorough { (0..=255).collect() } else { (0..=40).chain([47, 48, 49, 63, 64, 65, 66, 80, 81, 96, 97, 112, 113, 127, 128, 129, 144, 145, 192, 193, 254, 255]).collect() };
    for ty in 0..=7u8 {
        for (_, code) in codes.iter().filter(|(_, d)| d.len() == 1) {
            for &len in &lens {
                if len == 0 {
                    continue;
                }
                let mut d: Vec<u8> = (0..len).map(|i| (i * 29 + ty as usize) as u8).collect();
                d[0] = code[0];
                emit(&mut out, f2m_event(rng.r#gen(), ty, &d, len % 2 == 0));
            }
        }
    }
    // every table entry's code followed by bytes a careless parser might strip or ignore (line terminators, NUL, blanks, the
    // code again): two- and three-byte payloads are never the one-byte message
    for (ty, code) in codes.iter().filter(|(_, d)| d.len() <= 1) {
        for tail in [&[0x0Du8, 0x0A][..], &[0x0A], &[0x0D], &[0x00], &[0x20], &[0xFF], &[0x0A, 0x0D], &[0x00, 0x00], &[0x0D, 0x0A, 0x00], &[0x20, 0x20]] {
            let mut d = code.clone();
            d.extend_from_slice(tail);
            emit(&mut out, f2m_event(rng.r#gen(), *ty, &d, true));
            if let Some(c) = code.first() {
                let mut d2 = vec![*c, *c];
                d2.extend_from_slice(tail);
                emit(&mut out, f2m_event(rng.r#gen(), *ty, &d2, false));
            }
        }
    }
    // SendData at unaligned offsets with payloads that look like page headers / configuration blocks
    for off in [0x25u16, 0x0001, 0x000F, 0x0011, 0xFFFF, 0x1234] {
        for d in [&[1u8, 0x10, 0, 0][..], &[0xFF, 0x10, 0, 0, 0, 0], &[4, 0x20, 0, 6, 7, 30, 30, 30, 0, 8, 0, 0, 0, 0, 0, 0], &[0, 0x10, 0, 0, 0xFF, 0xFF, 0xFF, 0xFF, 0xFF, 0xFF, 0xFF, 0xFF, 0xFF, 0xFF, 0xFF, 0xFF]] {
            emit(&mut out, f2m_event(off, 0, d, true));
        }
    }
    // payloads that look like protocol data themselves: the ASCII of an encoded frame, a configuration block, a page header
    for ty in [0u8, 1, 2, 4, 9] {
        for inner_len in [0usize, 1, 2, 16, 60, 122] {
            let inner = seed_encoding(rng.r#gen(), rng.r#gen(), &rand_bytes(&mut rng, inner_len), inner_len % 2 == 1);
            if inner.len() <= 255 {
                emit(&mut out, f2m_event(rng.r#gen(), ty, &inner, true));
            }
        }
        emit(&mut out, f2m_event(rng.r#gen(), ty, &[0x04, 0x20, 0x00, 0x06, 0x07, 0x1E, 0x1E, 0x1E, 0x00, 0x08, 0, 0, 0, 0, 0, 0], false));
        emit(&mut out, f2m_event(rng.r#gen(), ty, b":00000001FF", false));
        emit(&mut out, f2m_event(rng.r#gen(), ty, b":0100030400F8\r\n", false));
    }
    // payloads the rest of the library gives a meaning to: every sign type's configuration block -- genuine, with one byte
    // changed at each position, with its tail zeroed / set / random, cut short and extended -- under the low message types
    for t in crate::ctl::ALL_TYPES.iter() {
        let block = t.to_bytes().to_vec();
        for ty in [0u8, 1, 2, 3, 6] {
            if ty != 0 && !thorough && rng.gen_bool(0.5) {
                continue;
            }
            emit(&mut out, f2m_event(rng.r#gen(), ty, &block, true));
            for k in 0..16 {
                let mut d = block.clone();
                d[k] ^= 1 << rng.gen_range(0..8);
                emit(&mut out, f2m_event(rng.r#gen(), ty, &d, false));
            }
            for keep in [2usize, 3, 4, 8, 15] {
                for fill in [Some(0x00u8), Some(0xFF), None] {
                    let mut d = block.clone();
                    for x in d.iter_mut().skip(keep) {
                        *x = fill.unwrap_or_else(|| rng.r#gen());
                    }
                    emit(&mut out, f2m_event(rng.r#gen(), ty, &d, true));
                }
            }
            emit(&mut out, f2m_event(rng.r#gen(), ty, &block[..15], false));
            let mut d = block.clone();
            d.extend_from_slice(&block);
            emit(&mut out, f2m_event(rng.r#gen(), ty, &d, false));
            d.push(0);
            emit(&mut out, f2m_event(rng.r#gen(), ty, &d, false));
        }
    }
    // uniform and periodic payloads at every length (blank / lit pixel rows, padding, a repeated 16-byte row)
    for ty in [0u8, 1, 2, 6] {
        for len in 1..=255usize {
            if !(thorough || ty == 0 || len % 16 <= 1 || rng.gen_bool(0.1)) {
                continue;
            }
            for fill in [0x00u8, 0xFF, 0x55, 0x10] {
                emit(&mut out, f2m_event(rng.r#gen(), ty, &vec![fill; len], len % 2 == 0));
            }
            let row = rand_bytes(&mut rng, 16);
            let d: Vec<u8> = (0..len).map(|i| row[i % 16]).collect();
            emit(&mut out, f2m_event(rng.r#gen(), ty, &d, true));
            // a page-shaped payload: header, blank columns, 0xFF padding
            let mut d = vec![0u8; len];
            d[0] = rng.r#gen();
            if len > 1 {
                d[1] = 0x10;
            }
            let pad = rng.gen_range(0..16usize).min(len.saturating_sub(4));
            for x in d.iter_mut().rev().take(pad) {
                *x = 0xFF;
            }
            emit(&mut out, f2m_event(rng.r#gen(), ty, &d, false));
        }
    }
    // random frames of any length
    let nr = if thorough { 30_000 } else { 1_500 };
    for _ in 0..nr {
        let len = rand_len(&mut rng);
        let ty = if rng.gen_bool(0.6) { rng.gen_range(0..8) } else { rng.r#gen() };
        emit(&mut out, f2m_event(rng.r#gen(), ty, &rand_bytes(&mut rng, len), rng.gen_bool(0.5)));
    }
    for len in [3usize, 16, 17, 254, 255] {
        for ty in 0..=7u8 {
            emit(&mut out, f2m_event(rng.r#gen(), ty, &rand_bytes(&mut rng, len), true));
        }
    }
    out.finish()
}

// ---------------------------------------------------------------- C05

fn m2w_event(m: &Message<'_>) -> Value {
    let mj = j::msg(m);
    let r = catch(|| {
        let frame = Frame::from(m.clone());
        let wire = frame.to_bytes_with_newline();
        let back = Frame::from_bytes(&wire).map(Message::from);
        let (bj, eq) = match &back {
            Ok(b) => (j::msg(b), b == m),
            Err(_) => (j::reply(&None), false),
        };
        (wire, bj, eq)
    });
    match r {
        Ok((wire, bj, eq)) => json!({"e": "m2w", "msg": mj, "wire": j::bytes(&wire), "back": bj, "backeq": eq}),
        Err(_) => json!({"e": "m2w", "msg": mj, "wire": [], "back": j::reply(&None), "backeq": false, "panic": true}),
    }
}

pub fn record_c05(a: &Args) -> usize {
    let thorough = a.tier == "thorough";
    let mut rng = StdRng::seed_from_u64(a.seed ^ 0xC05);
    let mut out = TraceOut::new(&a.out, "C05", a.shards);
    let mut n = 0usize;
    let mut emit = |out: &mut TraceOut, m: Message<'_>| {
        out.emit(m2w_event(&m));
        n += 1;
        if n % 256 == 0 {
            out.next_shard();
        }
    };
    let addrs = sample_addrs(&mut rng, thorough, 200);
    for &x in &addrs {
        emit(&mut out, Message::DataChunksSent(ChunkCount(x)));
        emit(&mut out, Message::Hello(Address(x)));
        emit(&mut out, Message::QueryState(Address(x)));
        emit(&mut out, Message::Goodbye(Address(x)));
        emit(&mut out, Message::PixelsComplete(Address(x)));
        for s in j::STATES {
            emit(&mut out, Message::ReportState(Address(x), s));
        }
        for o in j::OPS {
            emit(&mut out, Message::RequestOperation(Address(x), o));
            emit(&mut out, Message::AckOperation(Address(x), o));
        }
        let len = if x % 7 == 0 { 16 } else { rand_len(&mut rng).min(32) };
        emit(&mut out, Message::SendData(Offset(x), Data::try_new(rand_bytes(&mut rng, len)).unwrap()));
    }
    // SendData of every length, several offsets, owned and borrowed
    for len in 0..=255usize {
        for &off in &[0u16, 16, 0xFFF0, 0xFFFF] {
            if thorough || off == 0 || len < 20 || len > 250 {
                let d = rand_bytes(&mut rng, len);
                emit(&mut out, Message::SendData(Offset(off), Data::try_new(d.as_slice()).unwrap()));
            }
        }
    }
    // data chunks whose payload is itself the ASCII of an encoded frame (or looks like other protocol data)
    for inner_len in [0usize, 1, 2, 16, 60, 122] {
        for nl in [false, true] {
            let inner = seed_encoding(rng.r#gen(), rng.r#gen(), &rand_bytes(&mut rng, inner_len), nl);
            if inner.len() <= 255 {
                emit(&mut out, Message::SendData(Offset(rng.r#gen()), Data::try_new(inner).unwrap()));
            }
        }
    }
    emit(&mut out, Message::SendData(Offset(0), Data::try_new(b":00000001FF".to_vec()).unwrap()));
    // data chunks the rest of the library gives a meaning to: configuration blocks (genuine, doctored tails), blank / lit /
    // periodic pixel rows of every whole number of rows and the lengths next to them
    for t in crate::ctl::ALL_TYPES.iter() {
        let block = t.to_bytes().to_vec();
        emit(&mut out, Message::SendData(Offset(0), Data::try_new(block.clone()).unwrap()));
        for keep in [2usize, 4, 15] {
            for fill in [Some(0x00u8), Some(0xFF), None] {
                let mut d = block.clone();
                for x in d.iter_mut().skip(keep) {
                    *x = fill.unwrap_or_else(|| rng.r#gen());
                }
                emit(&mut out, Message::SendData(Offset(rng.gen_range(0..3) * 16), Data::try_new(d).unwrap()));
            }
        }
    }
    for len in 1..=255usize {
        if !(thorough || len % 16 <= 1 || len % 16 == 15 || rng.gen_bool(0.1)) {
            continue;
        }
        for fill in [0x00u8, 0xFF, 0x55] {
            emit(&mut out, Message::SendData(Offset(rng.r#gen()), Data::try_new(vec![fill; len]).unwrap()));
        }
        let row = rand_bytes(&mut rng, 16);
        let d: Vec<u8> = (0..len).map(|i| row[i % 16]).collect();
        emit(&mut out, Message::SendData(Offset(rng.r#gen()), Data::try_new(d).unwrap()));
    }
    // the same trip through a byte stream: batches of messages written back to back with Frame::write and read again with
    // Frame::read (a 255-byte chunk followed by short messages, and so on)
    let mut batch: Vec<Message<'static>> = vec![];
    for len in [255usize, 0, 254, 1, 255, 255, 16, 128, 250, 253] {
        batch.push(Message::SendData(Offset(len as u16), Data::try_new(rand_bytes(&mut rng, len)).unwrap()));
        batch.push(Message::DataChunksSent(ChunkCount(len as u16)));
        batch.push(Message::ReportState(Address(0xFFFF), j::STATES[len % 13]));
    }
    let mut stream: Vec<u8> = vec![];
    let mut wrote_all = true;
    for m in &batch {
        wrote_all &= matches!(catch(|| Frame::from(m.clone()).write(&mut stream)), Ok(Ok(())));
    }
    let mut cur = std::io::Cursor::new(stream);
    for m in &batch {
        let back = catch(|| Frame::read(&mut cur).map(|f| j::msg(&Message::from(f))));
        let (bj, eq) = match back {
            Ok(Ok(b)) => {
                let eq = b == j::msg(m);
                (b, eq && wrote_all)
            }
            _ => (j::reply(&None), false),
        };
        out.emit(json!({"e": "m2w", "msg": j::msg(m), "wire": [], "back": bj, "backeq": eq, "via": "stream"}));
    }
    // one-byte chunks with every byte value (they collide with no other table entry)
    for b in 0..=255u8 {
        emit(&mut out, Message::SendData(Offset(rng.r#gen()), Data::try_new(vec![b]).unwrap()));
    }
    out.finish()
}

// ---------------------------------------------------------------- replay (spec -> impl)

pub fn replay_c01(path: &str) {
    let mut rep = Report::new();
    for v in read_lines(path) {
        let addr = v["addr"].as_u64().unwrap() as u16;
        let ty = v["type"].as_u64().unwrap() as u8;
        let data = j::to_bytes(&v["data"]);
        let enc = j::to_bytes(&v["enc"]);
        let mut encnl = enc.clone();
        encnl.extend_from_slice(b"\r\n");
        let ctx = json!({"addr": addr, "type": ty, "data": v["data"]});
        let owned = j::mk_frame(addr, ty, &data);
        let borrowed = Frame::new(Address(addr), MsgType(ty), Data::try_new(data.as_slice()).unwrap());
        for (name, f) in [("owned", &owned), ("borrowed", &borrowed)] {
            match catch(|| (f.to_bytes(), f.to_bytes_with_newline())) {
                Ok((a, b)) => {
                    let _ = rep.cmp(&format!("to_bytes/{}", name), &ctx, &v["enc"], &j::bytes(&a));
                    let _ = rep.cmp(&format!("to_bytes_with_newline/{}", name), &ctx, &j::bytes(&encnl), &j::bytes(&b));
                }
                Err(p) => rep.mismatch(json!({"what": "encoding panicked", "ctx": ctx, "panic": p})),
            }
        }
        let expect = json!({"kind": "ok", "addr": addr, "type": ty, "data": v["data"], "expected": 0, "actual": 0});
        let _ = rep.cmp("from_bytes(enc)", &ctx, &expect, &decode(&enc));
        let _ = rep.cmp("from_bytes(enc+CRLF)", &ctx, &expect, &decode(&encnl));
        let eq = catch(|| matches!(Frame::from_bytes(&enc), Ok(ref f) if *f == owned && *f == borrowed)).unwrap_or(false);
        let _ = rep.cmp("decoded == original", &ctx, &json!(true), &json!(eq));
    }
    rep.finish(json!({}));
}

pub fn replay_c03(path: &str) {
    let mut rep = Report::new();
    for v in read_lines(path) {
        let s = j::to_bytes(&v["s"]);
        let ctx = json!({"s": v["s"]});
        let _ = rep.cmp("from_bytes", &ctx, &v["res"], &decode(&s));
    }
    rep.finish(json!({}));
}

pub fn replay_c04(path: &str) {
    let mut rep = Report::new();
    for v in read_lines(path) {
        let f = j::frame_from(&v["f"]);
        let ctx = json!({"f": v["f"]});
        let r = catch(|| {
            let m = Message::from(f.clone());
            let mj = j::msg(&m);
            (mj, j::frame(&Frame::from(m)))
        });
        match r {
            Ok((mj, back)) => {
                let _ = rep.cmp("Message::from(frame)", &ctx, &v["m"], &mj);
                let _ = rep.cmp("Frame::from(Message::from(frame))", &ctx, &v["f"], &back);
            }
            Err(p) => rep.mismatch(json!({"what": "panic", "ctx": ctx, "panic": p})),
        }
        // and the other direction from the spec's message
        let m = j::msg_from(&v["m"]);
        match catch(|| j::frame(&Frame::from(m))) {
            Ok(fj) => {
                let _ = rep.cmp("Frame::from(msg)", &ctx, &v["f"], &fj);
            }
            Err(p) => rep.mismatch(json!({"what": "Frame::from(msg) panicked", "ctx": ctx, "panic": p})),
        }
    }
    rep.finish(json!({}));
}

pub fn replay_c05(path: &str) {
    let mut rep = Report::new();
    for v in read_lines(path) {
        let m = j::msg_from(&v["m"]);
        let ctx = json!({"m": v["m"]});
        let wire = match catch(|| Frame::from(m.clone()).to_bytes()) {
            Ok(w) => w,
            Err(p) => {
                rep.mismatch(json!({"what": "encoding the message panicked", "ctx": ctx, "panic": p}));
                continue;
            }
        };
        let back = catch(|| Frame::from_bytes(&wire).map(Message::from));
        match back {
            Ok(Ok(b)) => {
                let _ = rep.cmp("decoded message", &ctx, &v["m"], &j::msg(&b));
                let _ = rep.cmp("decoded == original", &ctx, &json!(true), &json!(b == m));
            }
            Ok(Err(e)) => rep.mismatch(json!({"what": "decode error", "ctx": ctx, "err": format!("{:?}", e)})),
            Err(p) => rep.mismatch(json!({"what": "panic", "ctx": ctx, "panic": p})),
        }
    }
    rep.finish(json!({}));
}


// ---------------------------------------------------------------- beyond the listed properties: Display formats

pub fn record_display(a: &Args) -> usize {
    use flipdot_core::{Page, PageId};
    let mut rng = StdRng::seed_from_u64(a.seed ^ 0xD15);
    let mut out = TraceOut::new(&a.out, "DISPLAY", a.shards);
    let text = |s: String| j::bytes(s.as_bytes());
    for _ in 0..300 {
        let len = rand_len(&mut rng).min(40);
        let f = j::mk_frame(rng.r#gen(), rng.r#gen(), &rand_bytes(&mut rng, len));
        out.emit(json!({"e": "show", "what": "frame", "f": j::frame(&f), "text": text(format!("{}", f))}));
    }
    let addrs = [0u16, 3, 0xFF, 0x100, 0xABCD, 0xFFFF];
    for &x in &addrs {
        let mut msgs = vec![
            Message::Hello(Address(x)),
            Message::QueryState(Address(x)),
            Message::Goodbye(Address(x)),
            Message::PixelsComplete(Address(x)),
            Message::DataChunksSent(ChunkCount(x)),
            Message::SendData(Offset(x), Data::try_new(rand_bytes(&mut rng, (x % 20) as usize)).unwrap()),
            Message::Unknown(j::mk_frame(x, 9, &[1, 2, 255])),
            Message::Unknown(j::mk_frame(x, 0xAB, &[])),
        ];
        for s in j::STATES {
            msgs.push(Message::ReportState(Address(x), s));
        }
        for o in j::OPS {
            msgs.push(Message::RequestOperation(Address(x), o));
            msgs.push(Message::AckOperation(Address(x), o));
        }
        for m in msgs {
            out.emit(json!({"e": "show", "what": "message", "m": j::msg(&m), "text": text(format!("{}", m))}));
        }
    }
    // error texts of the frame codec: the offending (ASCII) input trimmed, the counts in decimal, the checksums in hex
    let mut inputs: Vec<Vec<u8>> = vec![
        b"garbage".to_vec(), b"".to_vec(), b"  :01 \t".to_vec(), b"\r\n".to_vec(), b":0100030407F9\r\n".to_vec(), b":0100030407F9".to_vec(),
        b":020003040708\r\n".to_vec(), b":0000030400".to_vec(), b"\n:01000502FFF9\r\n\r\n".to_vec(), b" x ".to_vec(), b":00000001F0\r\n".to_vec(),
        b":0A0003040102F0\r\n".to_vec(), b":FF00030407F9".to_vec(), b":0100030407\x0b".to_vec(),
    ];
    for _ in 0..40 {
        let len = rand_len(&mut rng).min(30);
        let mut enc = seed_encoding(rng.r#gen(), rng.r#gen(), &rand_bytes(&mut rng, len), rng.gen_bool(0.5));
        match rng.gen_range(0..3) {
            0 => { let k = enc.len() - 3 - if enc.ends_with(b"\r\n") { 2 } else { 0 }; enc[k.max(1)] = if enc[k.max(1)] == b'0' { b'1' } else { b'0' }; }
            1 => { enc[2] = if enc[2] == b'0' { b'1' } else { b'0' }; }
            _ => { let k = rng.gen_range(0..enc.len()); enc[k] = b"gZ -"[rng.gen_range(0..4)]; }
        }
        inputs.push(enc);
    }
    for inp in inputs {
        let ev = match catch(|| Frame::from_bytes(&inp)) {
            Ok(Err(e)) => {
                let (kind, ex, ac) = match &e {
                    flipdot_core::FrameError::InvalidFrame { .. } => ("invalid", 0usize, 0usize),
                    flipdot_core::FrameError::FrameDataMismatch { expected, actual, .. } => ("mismatch", *expected, *actual),
                    flipdot_core::FrameError::BadChecksum { expected, actual, .. } => ("checksum", *expected as usize, *actual as usize),
                    _ => ("other", 0, 0),
                };
                json!({"e": "show", "what": "frameerr", "kind": kind, "input": j::bytes(&inp), "expected": ex, "actual": ac, "text": text(format!("{}", e))})
            }
            _ => continue,
        };
        out.emit(ev);
    }
    for len in [256usize, 257, 1000, 65536] {
        if let Ok(Err(e)) = catch(|| Data::try_new(vec![0u8; len])) {
            if let flipdot_core::FrameError::DataTooLong { max, actual } = &e {
                out.emit(json!({"e": "show", "what": "frameerr", "kind": "toolong", "input": [], "expected": *max, "actual": *actual, "text": text(format!("{}", e))}));
            }
        }
    }
    for (w, h) in [(0u32, 0u32), (1, 1), (3, 2), (5, 7), (8, 8), (7, 9), (30, 7), (23, 10), (12, 17)] {
        let mut p = Page::new(PageId(1), w, h);
        for _ in 0..(w * h / 3) {
            p.set_pixel(rng.gen_range(0..w), rng.gen_range(0..h), true);
        }
        out.emit(json!({"e": "show", "what": "page", "p": {"w": w, "h": h, "bytes": j::bytes(p.as_bytes())}, "text": text(format!("{}", p))}));
    }
    out.finish()
}
