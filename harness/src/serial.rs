//! C15-C18, C20: frames over instrumented byte streams and serial ports.
use std::cell::RefCell;
use std::collections::VecDeque;
use std::io::{self, Read, Write};
use std::rc::Rc;
use std::time::{Duration, Instant};

use flipdot_core::{Address, ChunkCount, Data, Frame, FrameError, Message, MsgType, Offset, Operation, SignBus, State};
use flipdot_serial::SerialSignBus;
use rand::rngs::StdRng;
use rand::{Rng, SeedableRng};
use serde_json::{Value, json};
use serial_core::{BaudRate, CharSize, FlowControl, Parity, SerialDevice, SerialPortSettings, StopBits};

use crate::j;
use crate::util::{Args, TraceOut, catch};

// ------------------------------------------------------------------ C15: scheduled streams

const ERR_KINDS: [io::ErrorKind; 17] = [
    io::ErrorKind::Other,
    io::ErrorKind::UnexpectedEof,
    io::ErrorKind::TimedOut,
    io::ErrorKind::WouldBlock,
    io::ErrorKind::BrokenPipe,
    io::ErrorKind::InvalidData,
    io::ErrorKind::WriteZero,
    io::ErrorKind::ConnectionAborted,
    io::ErrorKind::NotFound,
    io::ErrorKind::PermissionDenied,
    io::ErrorKind::Unsupported,
    io::ErrorKind::ConnectionReset,
    io::ErrorKind::NotConnected,
    io::ErrorKind::InvalidInput,
    io::ErrorKind::OutOfMemory,
    io::ErrorKind::AlreadyExists,
    io::ErrorKind::ConnectionRefused,
];

/// usize::MAX: every injection site picks its own kind; otherwise the (kind, payload) pair that all sites use
pub static KIND_OVERRIDE: std::sync::atomic::AtomicUsize = std::sync::atomic::AtomicUsize::new(usize::MAX);

/// The hard errors injected into streams and ports: every kind, and - because an `io::Error` can carry any error as its
/// payload - with payloads that are themselves the library's own error type, another I/O error, or nothing at all.
/// Whatever the payload, a failed read or write is an I/O failure.
pub fn hard_error(kind: usize, what: &str) -> io::Error {
    let forced = KIND_OVERRIDE.load(std::sync::atomic::Ordering::Relaxed);
    let kind = if forced == usize::MAX { kind } else { forced };
    let k = ERR_KINDS[kind % ERR_KINDS.len()];
    match (kind / ERR_KINDS.len()) % 5 {
        0 => io::Error::new(k, what.to_string()),
        1 => io::Error::new(k, Frame::from_bytes(b"line noise").unwrap_err()),
        2 => io::Error::new(k, io::Error::new(io::ErrorKind::Interrupted, "inner")),
        3 => io::Error::from(k),
        _ => io::Error::new(k, FrameError::from(io::Error::new(io::ErrorKind::Interrupted, "inner, wrapped by the library's type"))),
    }
}

/// A byte source that follows a schedule: at most `frag` bytes per call, `Interrupted` at the calls in `intr`,
/// a hard error at call `err`.  It hands out as many bytes as the caller asks for (up to `frag`).
pub struct SchedReader {
    pub src: Vec<u8>,
    pub pos: usize,
    pub frag: usize,
    pub intr: Vec<usize>,
    pub err: Option<usize>,
    pub calls: usize,
    pub log: Vec<Value>,
    /// `storm.0` interrupted reads before the delivery of every byte position in `storm.1` (None: before every position)
    pub storm: Option<(usize, Option<usize>)>,
    pub storm_left: usize,
    pub storm_done_at: Option<usize>,
    pub kind: usize,
}

impl SchedReader {
    fn push_intr(&mut self, req: usize) {
        // consecutive interrupted calls are coalesced into one event with a count
        if let Some(last) = self.log.last_mut() {
            if last["ret"] == -1 && last["req"] == req {
                last["times"] = json!(last["times"].as_u64().unwrap_or(1) + 1);
                return;
            }
        }
        self.log.push(json!({"e": "read", "req": req, "ret": -1, "times": 1}));
    }
}

impl Read for SchedReader {
    fn read(&mut self, buf: &mut [u8]) -> io::Result<usize> {
        let i = self.calls;
        self.calls += 1;
        if self.err == Some(i) {
            self.log.push(json!({"e": "read", "req": buf.len(), "ret": -2, "times": 1}));
            return Err(hard_error(self.kind, "scheduled hard error"));
        }
        if self.intr.contains(&i) {
            self.push_intr(buf.len());
            return Err(io::Error::new(io::ErrorKind::Interrupted, "scheduled interrupt"));
        }
        if let Some((n, at)) = self.storm {
            if (at.is_none() || at == Some(self.pos)) && self.storm_done_at != Some(self.pos) {
                if self.storm_left == 0 {
                    self.storm_left = n;
                }
                self.storm_left -= 1;
                if self.storm_left == 0 {
                    self.storm_done_at = Some(self.pos);
                }
                self.push_intr(buf.len());
                return Err(io::Error::new(io::ErrorKind::Interrupted, "interrupt storm"));
            }
        }
        let k = buf.len().min(self.frag).min(self.src.len() - self.pos);
        buf[..k].copy_from_slice(&self.src[self.pos..self.pos + k]);
        self.pos += k;
        // identical consecutive successful reads are coalesced into one event with a count
        let coalesced = match self.log.last_mut() {
            Some(last) if k > 0 && last["ret"] == k && last["req"] == buf.len() => {
                last["times"] = json!(last["times"].as_u64().unwrap_or(1) + 1);
                true
            }
            _ => false,
        };
        if !coalesced {
            self.log.push(json!({"e": "read", "req": buf.len(), "ret": k, "times": 1}));
        }
        Ok(k)
    }
}

pub struct SchedWriter {
    pub limit: usize,
    pub intr: Vec<usize>,
    pub zero: Option<usize>,
    pub err: Option<usize>,
    pub calls: usize,
    pub log: Vec<Value>,
    pub kind: usize,
}

impl Write for SchedWriter {
    fn write(&mut self, buf: &[u8]) -> io::Result<usize> {
        let i = self.calls;
        self.calls += 1;
        let offered = j::bytes(buf);
        if self.err == Some(i) {
            self.log.push(json!({"e": "write", "offered": offered, "ret": -2}));
            return Err(hard_error(self.kind, "scheduled hard error"));
        }
        if self.intr.contains(&i) {
            self.log.push(json!({"e": "write", "offered": offered, "ret": -1}));
            return Err(io::Error::new(io::ErrorKind::Interrupted, "scheduled interrupt"));
        }
        if self.zero == Some(i) {
            self.log.push(json!({"e": "write", "offered": offered, "ret": 0}));
            return Ok(0);
        }
        let k = buf.len().min(self.limit);
        self.log.push(json!({"e": "write", "offered": offered, "ret": k}));
        Ok(k)
    }
    fn flush(&mut self) -> io::Result<()> {
        Ok(())
    }
}

fn frame_result(r: &Result<Result<Frame<'static>, FrameError>, String>) -> Value {
    match r {
        Ok(x) => j::decode_result(x),
        Err(_) => j::panic_result(),
    }
}

/// Reads frames from the scheduled stream until it is exhausted, an I/O error happens, or `max` frames were read.
fn run_reads(out: &mut TraceOut, src: &[u8], frag: usize, intr: Vec<usize>, err: Option<usize>, max: usize) -> usize {
    run_reads_x(out, src, frag, intr, err, max, None, err.unwrap_or(0) + src.len())
}

#[allow(clippy::too_many_arguments)]
fn run_reads_x(out: &mut TraceOut, src: &[u8], frag: usize, intr: Vec<usize>, err: Option<usize>, max: usize, storm: Option<(usize, Option<usize>)>, kind: usize) -> usize {
    let mut rd = SchedReader { src: src.to_vec(), pos: 0, frag, intr, err, calls: 0, log: vec![], storm, storm_left: 0, storm_done_at: None, kind };
    out.emit(json!({"e": "rstart", "src": j::bytes(src)}));
    let mut n = 1;
    for _ in 0..max {
        out.emit(json!({"e": "rcall"}));
        let pos_before = rd.pos;
        let r = catch(|| Frame::read(&mut rd).map(|f| j::frame_from(&j::frame(&f))));
        for ev in rd.log.drain(..) {
            out.emit(ev);
            n += 1;
        }
        let res = frame_result(&r);
        let io = res["kind"] == "io" || res["kind"] == "panic";
        // what the reader consumed, and what the library's own decoder says about exactly those bytes
        let line = rd.src[pos_before..rd.pos].to_vec();
        let direct = frame_result(&catch(|| Frame::from_bytes(&line).map(|f| j::frame_from(&j::frame(&f)))));
        out.emit(json!({"e": "rret", "res": res, "left": rd.src.len() - rd.pos, "line": j::bytes(&line), "direct": direct}));
        n += 2;
        if io || rd.pos >= rd.src.len() {
            break;
        }
    }
    n
}

fn run_write(out: &mut TraceOut, f: &Frame<'static>, limit: usize, intr: Vec<usize>, zero: Option<usize>, err: Option<usize>) -> usize {
    let mut w = SchedWriter { limit, intr, zero, err, calls: 0, log: vec![], kind: err.unwrap_or(0) + limit };
    let want = catch(|| f.to_bytes_with_newline()).unwrap_or_default();
    out.emit(json!({"e": "wstart", "frame": j::frame(f), "want": j::bytes(&want)}));
    let r = catch(|| f.write(&mut w));
    let mut n = 2;
    for ev in w.log.drain(..) {
        out.emit(ev);
        n += 1;
    }
    let res = match r {
        Ok(Ok(())) => "ok",
        Ok(Err(FrameError::Io { .. })) => "io",
        Ok(Err(_)) => "othererr",
        Err(_) => "panic",
    };
    out.emit(json!({"e": "wret", "res": res}));
    n
}

pub fn record_c15(a: &Args) -> usize {
    let thorough = a.tier == "thorough";
    let mut rng = StdRng::seed_from_u64(a.seed ^ 0xC15);
    let mut out = TraceOut::new(&a.out, "C15", a.shards);
    let f1 = Enc(1, 2, vec![]);
    let f2 = Enc(0xFFFF, 4, vec![0x0F]);
    let f3 = Enc(3, 0, vec![10, 13]);
    let wf1 = j::mk_frame(1, 2, &[]);
    let wf2 = j::mk_frame(0xFFFF, 4, &[0x0F]);
    let wf3 = j::mk_frame(3, 0, &[10, 13]);
    let cat = |parts: &[&[u8]]| -> Vec<u8> { parts.iter().flat_map(|p| p.iter().copied()).collect() };
    // stream contents come from the harness's own hex encoder: C15 is about the stream handling, not the codec
    struct Enc(u16, u8, Vec<u8>);
    impl Enc {
        fn to_bytes(&self) -> Vec<u8> {
            crate::codec::seed_encoding(self.0, self.1, &self.2, false)
        }
        fn to_bytes_with_newline(&self) -> Vec<u8> {
            crate::codec::seed_encoding(self.0, self.1, &self.2, true)
        }
    }
    let streams: Vec<Vec<u8>> = vec![
        cat(&[&f1.to_bytes_with_newline()]),
        cat(&[&f1.to_bytes_with_newline(), b":0"]),
        cat(&[&f2.to_bytes_with_newline(), &f1.to_bytes_with_newline(), b"\xFF\x00:"]),
        cat(&[&f3.to_bytes_with_newline(), &f2.to_bytes_with_newline(), &f1.to_bytes_with_newline()]),
        cat(&[&f2.to_bytes()]),
        cat(&[b":01\n", &f1.to_bytes_with_newline()]),
        cat(&[b"\r\n", &f1.to_bytes_with_newline(), b"\n"]),
        cat(&[&f1.to_bytes(), b"\n", &f2.to_bytes_with_newline()]),
        // junk and a complete frame on the same line (the whole line is what must be decoded), then a good line
        cat(&[b"zz", &f1.to_bytes_with_newline(), &f2.to_bytes_with_newline()]),
        cat(&[b":01", &f2.to_bytes_with_newline(), b"\x00", &f1.to_bytes_with_newline()]),
        cat(&[&f3.to_bytes(), &f1.to_bytes_with_newline(), &f2.to_bytes_with_newline()]),
    ];
    let mut n = 0usize;
    // exhaustive schedules on the short streams: fragment limit x interrupt placement (<= 2) x hard error at every call
    let frags: Vec<usize> = if thorough { vec![1, 2, 3, 5, 64, usize::MAX] } else { vec![1, 3, usize::MAX] };
    for src in &streams {
        let ncalls = src.len() + 4;
        for &frag in &frags {
            let mut intrs: Vec<Vec<usize>> = vec![vec![]];
            for i in 0..ncalls.min(if thorough { 40 } else { 16 }) {
                intrs.push(vec![i]);
                if thorough || i % 5 == 0 {
                    intrs.push(vec![i, i + 1]);
                    intrs.push(vec![i, i + 3]);
                }
            }
            for intr in &intrs {
                out.balance();
                n += run_reads(&mut out, src, frag, intr.clone(), None, 8);
            }
            for e in 0..ncalls {
                out.balance();
                n += run_reads(&mut out, src, frag, if e % 3 == 0 { vec![e / 2] } else { vec![] }, Some(e), 8);
            }
        }
    }
    // every (kind, payload) pair of hard error at the first, a middle and the last call of a read and of a write
    {
        let src = &streams[0];
        let fr = Frame::new(Address(0x1234), MsgType(2), Data::try_new(vec![1, 2, 3, 4, 5]).unwrap());
        for forced in 0..(5 * ERR_KINDS.len()) {
            KIND_OVERRIDE.store(forced, std::sync::atomic::Ordering::Relaxed);
            out.balance();
            for (frag, e) in [(1usize, 0usize), (1, 7), (3, 2), (usize::MAX, 0), (usize::MAX, 1)] {
                if thorough || (forced + e) % 2 == 0 || forced / ERR_KINDS.len() == 1 {
                    n += run_reads(&mut out, src, frag, vec![], Some(e), 8);
                }
            }
            for (limit, e) in [(usize::MAX, 0usize), (4, 0), (4, 2), (1, 11)] {
                if thorough || (forced + e) % 2 == 0 || forced / ERR_KINDS.len() == 1 {
                    n += run_write(&mut out, &fr, limit, vec![], None, Some(e));
                }
            }
        }
        KIND_OVERRIDE.store(usize::MAX, std::sync::atomic::Ordering::Relaxed);
    }
    // a frame of every data length 0..=255, each followed by another frame and a trailing byte (fragment limits rotate)
    for len in 0..=255usize {
        if len % 8 == 0 {
            out.balance();
        }
        let d: Vec<u8> = (0..len).map(|i| (i * 11 + len) as u8).collect();
        let src = cat(&[&Enc(len as u16, 0, d).to_bytes_with_newline(), &f2.to_bytes_with_newline(), b"x"]);
        n += run_reads(&mut out, &src, [usize::MAX, 1, 255, 256, 16][len % 5], vec![], None, 4);
    }
    // lines that announce more (or less) data than they carry -- a frame cut off in transit, a damaged length byte -- followed
    // by further frames: whatever the first characters promise, a read ends at the first line feed
    for declared in [0x00u8, 0x01, 0x10, 0x3F, 0x40, 0x41, 0x7F, 0x80, 0xFE, 0xFF] {
        for actual in [0usize, 1, 5, 20, 64, 200] {
            if actual == declared as usize || (!thorough && (declared as usize + actual) % 3 == 2) {
                continue;
            }
            out.balance();
            let d: Vec<u8> = (0..actual).map(|i| (i * 7 + declared as usize) as u8).collect();
            let mut line = Enc(0x0102, 0, d).to_bytes_with_newline();
            let dd = format!("{:02X}", declared);
            line[1] = dd.as_bytes()[0];
            line[2] = dd.as_bytes()[1];
            let src = cat(&[&line, &f2.to_bytes_with_newline(), &f1.to_bytes_with_newline(), b"tail"]);
            n += run_reads(&mut out, &src, [usize::MAX, 1, 3, 64, 600][(declared as usize + actual) % 5], vec![], None, 4);
            // and cut in the middle of a pair, without its checksum
            let cut = line.len() / 2 | 1;
            let src = cat(&[&line[..cut], b"\r\n", &f1.to_bytes_with_newline(), &f2.to_bytes_with_newline()]);
            n += run_reads(&mut out, &src, [2usize, usize::MAX, 1][actual % 3], vec![], None, 4);
        }
    }
    // interrupt storms: very many interrupted reads within one frame read (they must stay invisible however often they occur)
    {
        let big = Enc(0xABCD, 0x11, (0..255).map(|x| (x * 3) as u8).collect::<Vec<u8>>()).to_bytes_with_newline();
        let small = cat(&[&f2.to_bytes_with_newline(), &f1.to_bytes_with_newline(), b"zz"]);
        let mut two = big.clone();
        two.extend_from_slice(&f1.to_bytes_with_newline());
        out.balance();
        n += run_reads_x(&mut out, &two, 1, vec![], None, 4, Some((if thorough { 400 } else { 150 }, None)), 0);
        out.balance();
        n += run_reads_x(&mut out, &small, usize::MAX, vec![], None, 4, Some((70_000, Some(0))), 0);
        out.balance();
        n += run_reads_x(&mut out, &small, 1, vec![], None, 4, Some((66_000, Some(5))), 0);
        if thorough {
            out.balance();
            n += run_reads_x(&mut out, &small, 1, vec![], None, 4, Some((1_000_000, Some(small.len() - 4))), 0);
        }
        // a very long line of noise, then a frame
        let mut noise: Vec<u8> = (0..70_000).map(|i| b"0123456789ABCDEF:xyz\r"[i % 21]).collect();
        noise.push(b'\n');
        noise.extend_from_slice(&f1.to_bytes_with_newline());
        out.balance();
        n += run_reads_x(&mut out, &noise, 4096, vec![], None, 4, None, 0);
    }
    // random long streams: up to 20 frames with data up to 255 bytes, malformed lines, missing final LF
    let nrand = if thorough { 400 } else { 25 };
    for _ in 0..nrand {
        out.balance();
        let mut src = vec![];
        let nf = rng.gen_range(1..=if thorough { 20 } else { 6 });
        for _ in 0..nf {
            let len = if rng.gen_bool(0.1) { rng.gen_range(200..=255) } else { rng.gen_range(0..20) };
            let d: Vec<u8> = (0..len).map(|_| rng.r#gen()).collect();
            let f = Enc(rng.r#gen(), rng.r#gen(), d);
            match rng.gen_range(0..10) {
                0 => {
                    src.extend_from_slice(&f.to_bytes());
                    src.push(b'\n');
                }
                1 => src.extend_from_slice(b":zz\r\n"),
                2 => {
                    let mut e = f.to_bytes_with_newline();
                    let k = rng.gen_range(0..e.len() - 2);
                    e[k] = rng.r#gen();
                    src.extend_from_slice(&e);
                }
                _ => src.extend_from_slice(&f.to_bytes_with_newline()),
            }
        }
        if rng.gen_bool(0.3) {
            let k = rng.gen_range(0..10);
            for _ in 0..k {
                src.push(rng.r#gen());
            }
        }
        let frag = [1usize, 2, 7, 16, 100, usize::MAX][rng.gen_range(0..6)];
        let intr: Vec<usize> = (0..rng.gen_range(0..6)).map(|_| rng.gen_range(0..src.len() + 2)).collect();
        let err = if rng.gen_bool(0.3) { Some(rng.gen_range(0..src.len() + 2)) } else { None };
        n += run_reads(&mut out, &src, frag, intr, err, 30);
    }
    // writing: every frame below x sink limit x interrupt / zero / hard error at every call
    let mut frames = vec![wf1, wf2, wf3, j::mk_frame(0x1234, 0, &(0..16).collect::<Vec<u8>>())];
    // long frames (their encodings exceed 256 and 512 bytes)
    frames.push(j::mk_frame(0xABCD, 0xEE, &(0..255).map(|x| x as u8).collect::<Vec<u8>>()));
    frames.push(j::mk_frame(0x0102, 0x00, &(0..122).map(|x| (x * 2) as u8).collect::<Vec<u8>>()));
    frames.push(j::mk_frame(0x0102, 0x00, &(0..128).map(|x| (x * 3) as u8).collect::<Vec<u8>>()));
    for f in &frames {
        let total = 13 + 2 * f.data().len(); // (the length of the documented encoding; the library's encoder is only called under observation)
        let limits: Vec<usize> = if total > 100 { if thorough { vec![1, 7, 100, 256, 600] } else { vec![100, 256, 600] } } else { vec![1, 2, 3, 5, 600] };
        for &limit in &limits {
            let ncalls = (total + limit - 1) / limit + 2;
            let ncalls = ncalls.min(if thorough { 80 } else { 24 });
            out.balance();
            n += run_write(&mut out, f, limit, vec![], None, None);
            for i in 0..ncalls {
                out.balance();
                n += run_write(&mut out, f, limit, vec![i], None, None);
                n += run_write(&mut out, f, limit, vec![i, i + 1], None, None);
                n += run_write(&mut out, f, limit, vec![], Some(i), None);
                n += run_write(&mut out, f, limit, vec![], None, Some(i));
                n += run_write(&mut out, f, limit, vec![i.saturating_sub(1)], None, Some(i));
            }
        }
    }
    let _ = n;
    out.finish()
}

// ------------------------------------------------------------------ instrumented serial port

#[derive(Clone, Debug, PartialEq)]
pub struct Line {
    pub baud: BaudRate,
    pub bits: CharSize,
    pub parity: Parity,
    pub stop: StopBits,
    pub flow: FlowControl,
}

pub fn line_json(l: &Line) -> Value {
    let baud = match l.baud {
        BaudRate::BaudOther(n) => format!("other:{}", n),
        b => format!("{}", b.speed()),
    };
    let bits = match l.bits {
        CharSize::Bits5 => "5",
        CharSize::Bits6 => "6",
        CharSize::Bits7 => "7",
        CharSize::Bits8 => "8",
    };
    let parity = match l.parity {
        Parity::ParityNone => "none",
        Parity::ParityOdd => "odd",
        Parity::ParityEven => "even",
    };
    let stop = match l.stop {
        StopBits::Stop1 => "1",
        StopBits::Stop2 => "2",
    };
    let flow = match l.flow {
        FlowControl::FlowNone => "none",
        FlowControl::FlowSoftware => "software",
        FlowControl::FlowHardware => "hardware",
    };
    json!({"baud": baud, "bits": bits, "parity": parity, "stop": stop, "flow": flow})
}

pub struct PortState {
    pub line: Line,
    pub timeout: Option<Duration>,
    pub fail: String, // "none" | "read_settings" | "set_baud_rate" | "write_settings" | "set_timeout"
    pub fail_kind: usize, // which kind of error the refused call reports
    pub dev_log: Vec<Value>,
    pub rx: VecDeque<u8>,
    pub tx: Vec<u8>,
    pub io_log: Vec<Value>,
    pub io_calls: usize,
    pub io_fail_at: Option<usize>, // index of the read/write call that fails hard
    pub t0: Instant,
    pub read_latency: Option<Duration>, // the reply arrives this late
    pub fail_writes: usize,             // the next N write calls fail hard
    pub io_fail_n: usize,               // how many consecutive calls fail from io_fail_at on (reads, writes and flushes count)
    pub write_cap: Option<usize>,       // the port accepts at most this many bytes per write call (a legal short write)
    pub io_kind: usize,                 // which kind of hard error an injected read / write / flush fault reports
    pub intr_every: Option<usize>,      // every k-th read / write call is first answered with ErrorKind::Interrupted (not a failure)
    intr_count: usize,
}

impl PortState {
    pub fn new(line: Line) -> Self {
        PortState { line, timeout: None, fail: "none".into(), fail_kind: 0, dev_log: vec![], rx: VecDeque::new(), tx: vec![], io_log: vec![], io_calls: 0, io_fail_at: None, t0: Instant::now(), read_latency: None, fail_writes: 0, io_fail_n: 1, write_cap: None, io_kind: 0, intr_every: None, intr_count: 0 }
    }
    fn now(&self) -> u64 {
        self.t0.elapsed().as_micros() as u64
    }
    /// Takes the next I/O call index and says whether that call is scheduled to fail.
    fn next_io(&mut self) -> (usize, bool) {
        let i = self.io_calls;
        self.io_calls += 1;
        (i, matches!(self.io_fail_at, Some(a) if i >= a && i < a + self.io_fail_n.max(1)))
    }
    /// Whether this call is to be interrupted (EINTR): a call that the caller is expected to repeat, not a failure.
    fn interrupt_now(&mut self) -> bool {
        match self.intr_every {
            Some(k) if k > 0 => {
                self.intr_count += 1;
                self.intr_count % k == 0
            }
            _ => false,
        }
    }
    fn io_error(&mut self, what: &str) -> io::Error {
        self.io_kind += 1;
        hard_error(self.io_kind - 1, what)
    }
}

/// The device errors injected by the instrumented port, of several kinds (a retry on one kind must not hide a refusal).
pub const DEV_ERROR_KINDS: usize = 22;

fn dev_error(kind: usize, what: &str) -> serial_core::Error {
    use io::ErrorKind as K;
    // both non-I/O kinds and every stable I/O kind: which kind a port refuses with must not matter
    const IO: [K; 20] = [
        K::Interrupted, K::TimedOut, K::WouldBlock, K::Other, K::Unsupported, K::NotFound, K::PermissionDenied, K::ConnectionRefused,
        K::ConnectionReset, K::ConnectionAborted, K::NotConnected, K::AddrInUse, K::AddrNotAvailable, K::BrokenPipe, K::AlreadyExists,
        K::InvalidInput, K::InvalidData, K::WriteZero, K::UnexpectedEof, K::OutOfMemory,
    ];
    match kind % DEV_ERROR_KINDS {
        0 => serial_core::Error::new(serial_core::ErrorKind::NoDevice, what),
        1 => serial_core::Error::new(serial_core::ErrorKind::InvalidInput, what),
        k => serial_core::Error::new(serial_core::ErrorKind::Io(IO[k - 2]), what),
    }
}

type Pump = Rc<RefCell<Option<Box<dyn FnMut()>>>>;

/// The port: all state is shared so that the harness can inspect it after handing the port over.
pub struct IPort {
    pub st: Rc<RefCell<PortState>>,
    pub pump: Pump, // invoked after a write that completes a line (duplex pair for C17)
}

impl IPort {
    pub fn new(st: Rc<RefCell<PortState>>) -> Self {
        IPort { st, pump: Rc::new(RefCell::new(None)) }
    }
}

pub struct ISettings {
    line: Line,
    st: Rc<RefCell<PortState>>,
}

impl SerialPortSettings for ISettings {
    fn baud_rate(&self) -> Option<BaudRate> {
        Some(self.line.baud)
    }
    fn char_size(&self) -> Option<CharSize> {
        Some(self.line.bits)
    }
    fn parity(&self) -> Option<Parity> {
        Some(self.line.parity)
    }
    fn stop_bits(&self) -> Option<StopBits> {
        Some(self.line.stop)
    }
    fn flow_control(&self) -> Option<FlowControl> {
        Some(self.line.flow)
    }
    fn set_baud_rate(&mut self, baud_rate: BaudRate) -> serial_core::Result<()> {
        let fail = self.st.borrow().fail.split('+').any(|f| f == "set_baud_rate");
        self.st.borrow_mut().dev_log.push(json!({"e": "dev", "call": "set_baud_rate", "ok": !fail}));
        if fail {
            let k = self.st.borrow().fail_kind;
            return Err(dev_error(k, "injected: baud rate refused"));
        }
        self.line.baud = baud_rate;
        Ok(())
    }
    fn set_char_size(&mut self, char_size: CharSize) {
        self.line.bits = char_size;
    }
    fn set_parity(&mut self, parity: Parity) {
        self.line.parity = parity;
    }
    fn set_stop_bits(&mut self, stop_bits: StopBits) {
        self.line.stop = stop_bits;
    }
    fn set_flow_control(&mut self, flow_control: FlowControl) {
        self.line.flow = flow_control;
    }
}

impl Read for IPort {
    fn read(&mut self, buf: &mut [u8]) -> io::Result<usize> {
        {
            let mut s = self.st.borrow_mut();
            if s.interrupt_now() {
                let t = s.now();
                s.io_log.push(json!({"e": "pr", "req": buf.len(), "ret": -4, "t0": t, "t1": t}));
                return Err(io::Error::new(io::ErrorKind::Interrupted, "interrupted"));
            }
        }
        let (t0, fail, latency) = {
            let mut s = self.st.borrow_mut();
            let (_, fail) = s.next_io();
            (s.now(), fail, s.read_latency.take())
        };
        if let Some(d) = latency {
            std::thread::sleep(d);
        }
        let mut s = self.st.borrow_mut();
        if fail {
            let t1 = s.now();
            s.io_log.push(json!({"e": "pr", "req": buf.len(), "ret": -2, "t0": t0, "t1": t1}));
            return Err(s.io_error("injected read failure"));
        }
        if s.rx.is_empty() {
            let t1 = s.now();
            s.io_log.push(json!({"e": "pr", "req": buf.len(), "ret": -3, "t0": t0, "t1": t1}));
            return Err(io::Error::new(io::ErrorKind::TimedOut, "nothing to read: time-out"));
        }
        let k = buf.len().min(s.rx.len());
        for b in buf.iter_mut().take(k) {
            *b = s.rx.pop_front().unwrap();
        }
        let t1 = s.now();
        s.io_log.push(json!({"e": "pr", "req": buf.len(), "ret": k, "t0": t0, "t1": t1}));
        Ok(k)
    }
}

impl Write for IPort {
    fn write(&mut self, buf: &[u8]) -> io::Result<usize> {
        let complete_line;
        let n;
        {
            let mut s = self.st.borrow_mut();
            let t0 = s.now();
            if s.interrupt_now() {
                s.io_log.push(json!({"e": "pw", "data": j::bytes(buf), "ret": -4, "t0": t0, "t1": t0}));
                return Err(io::Error::new(io::ErrorKind::Interrupted, "interrupted"));
            }
            let (_, fail) = s.next_io();
            if fail || s.fail_writes > 0 {
                s.fail_writes = s.fail_writes.saturating_sub(1);
                let t1 = s.now();
                s.io_log.push(json!({"e": "pw", "data": j::bytes(buf), "ret": -2, "t0": t0, "t1": t1}));
                return Err(s.io_error("injected write failure"));
            }
            // a port may take fewer bytes than offered (never zero of a non-empty buffer)
            n = s.write_cap.map(|c| c.max(1).min(buf.len())).unwrap_or(buf.len());
            s.tx.extend_from_slice(&buf[..n]);
            complete_line = n > 0 && buf[n - 1] == b'\n';
            let t1 = s.now();
            s.io_log.push(json!({"e": "pw", "data": j::bytes(buf), "ret": n, "t0": t0, "t1": t1}));
        }
        if complete_line {
            let p = self.pump.clone();
            if let Some(f) = p.borrow_mut().as_mut() {
                f();
            }
        }
        Ok(n)
    }
    /// The library never had to flush; a flush is still an I/O call that the fault schedule can refuse.
    fn flush(&mut self) -> io::Result<()> {
        let mut s = self.st.borrow_mut();
        let t0 = s.now();
        let (_, fail) = s.next_io();
        s.io_log.push(json!({"e": "pf", "ret": if fail { -2 } else { 0 }, "t0": t0, "t1": t0}));
        if fail {
            return Err(s.io_error("injected flush failure"));
        }
        Ok(())
    }
}

impl SerialDevice for IPort {
    type Settings = ISettings;

    fn read_settings(&self) -> serial_core::Result<ISettings> {
        let fail = self.st.borrow().fail.split('+').any(|f| f == "read_settings");
        self.st.borrow_mut().dev_log.push(json!({"e": "dev", "call": "read_settings", "ok": !fail}));
        if fail {
            let k = self.st.borrow().fail_kind;
            return Err(dev_error(k, "injected: cannot read settings"));
        }
        Ok(ISettings { line: self.st.borrow().line.clone(), st: self.st.clone() })
    }
    fn write_settings(&mut self, settings: &ISettings) -> serial_core::Result<()> {
        let fail = self.st.borrow().fail.split('+').any(|f| f == "write_settings");
        self.st.borrow_mut().dev_log.push(json!({"e": "dev", "call": "write_settings", "ok": !fail}));
        if fail {
            let k = self.st.borrow().fail_kind;
            return Err(dev_error(k, "injected: settings refused"));
        }
        self.st.borrow_mut().line = settings.line.clone();
        Ok(())
    }
    fn timeout(&self) -> Duration {
        self.st.borrow().timeout.unwrap_or(Duration::from_secs(0))
    }
    fn set_timeout(&mut self, timeout: Duration) -> serial_core::Result<()> {
        let fail = self.st.borrow().fail.split('+').any(|f| f == "set_timeout");
        self.st.borrow_mut().dev_log.push(json!({"e": "dev", "call": "set_timeout", "ok": !fail, "value": format!("{}.{:09}", timeout.as_secs(), timeout.subsec_nanos())}));
        if fail {
            let k = self.st.borrow().fail_kind;
            return Err(dev_error(k, "injected: timeout refused"));
        }
        self.st.borrow_mut().timeout = Some(timeout);
        Ok(())
    }
    fn set_rts(&mut self, _: bool) -> serial_core::Result<()> {
        Ok(())
    }
    fn set_dtr(&mut self, _: bool) -> serial_core::Result<()> {
        Ok(())
    }
    fn read_cts(&mut self) -> serial_core::Result<bool> {
        Ok(true)
    }
    fn read_dsr(&mut self) -> serial_core::Result<bool> {
        Ok(true)
    }
    fn read_ri(&mut self) -> serial_core::Result<bool> {
        Ok(false)
    }
    fn read_cd(&mut self) -> serial_core::Result<bool> {
        Ok(true)
    }
}

pub fn target_line() -> Line {
    Line { baud: BaudRate::Baud19200, bits: CharSize::Bits8, parity: Parity::ParityNone, stop: StopBits::Stop1, flow: FlowControl::FlowNone }
}

// ------------------------------------------------------------------ C20

pub fn record_c20(a: &Args) -> usize {
    let thorough = a.tier == "thorough";
    let mut out = TraceOut::new(&a.out, "C20", a.shards);
    let bauds = [
        BaudRate::Baud110,
        BaudRate::Baud300,
        BaudRate::Baud600,
        BaudRate::Baud1200,
        BaudRate::Baud2400,
        BaudRate::Baud4800,
        BaudRate::Baud9600,
        BaudRate::Baud19200,
        BaudRate::Baud38400,
        BaudRate::Baud57600,
        BaudRate::Baud115200,
        BaudRate::BaudOther(250000),
        BaudRate::BaudOther(1),
        // "other" rates that equal the target, or are congruent to it modulo a narrower integer width
        BaudRate::BaudOther(19200),
        BaudRate::BaudOther(19199),
        BaudRate::BaudOther(19200 + (1 << 8)),
        BaudRate::BaudOther(19200 + (1 << 16)),
        BaudRate::BaudOther(19200usize.wrapping_add(1usize.wrapping_shl(32))),
        BaudRate::BaudOther(19200usize.wrapping_add(5usize.wrapping_shl(32))),
        BaudRate::BaudOther(0),
        BaudRate::BaudOther(usize::MAX),
    ];
    let bits = [CharSize::Bits5, CharSize::Bits6, CharSize::Bits7, CharSize::Bits8];
    let parities = [Parity::ParityNone, Parity::ParityOdd, Parity::ParityEven];
    let stops = [StopBits::Stop1, StopBits::Stop2];
    let flows = [FlowControl::FlowNone, FlowControl::FlowSoftware, FlowControl::FlowHardware];
    // one refused call, and every pair of refused calls (a port that is going away refuses everything)
    let fails = ["none", "read_settings", "set_baud_rate", "write_settings", "set_timeout", "read_settings+set_timeout", "set_baud_rate+set_timeout",
                 "write_settings+set_timeout", "read_settings+write_settings", "set_baud_rate+write_settings", "read_settings+set_baud_rate+write_settings+set_timeout"];
    let ctors = ["configure_port", "bus", "odk"];
    let mut k = 0usize;
    let mut runs = 0usize;
    for b in bauds {
        for c in bits {
            for p in parities {
                for s in stops {
                    for f in flows {
                        let prior = Line { baud: b, bits: c, parity: p, stop: s, flow: f };
                        for fail in fails {
                            for (ci, ctor) in ctors.iter().enumerate() {
                                // quick: every prior setting with every failure point, constructors rotated; thorough: the full product
                                if !thorough && (k + ci) % 3 != 0 {
                                    continue;
                                }
                                if k % 64 == 0 {
                                    out.balance();
                                }
                                let st = Rc::new(RefCell::new(PortState::new(prior.clone())));
                                st.borrow_mut().fail = fail.to_string();
                                // the port's own time-out before set-up: none, short, exactly and beyond what the constructors ask for
                                st.borrow_mut().timeout = [None, Some(Duration::from_millis(1)), Some(Duration::from_secs(5)), Some(Duration::from_secs(10)),
                                                           Some(Duration::from_secs(11)), Some(Duration::from_secs(3600)), Some(Duration::MAX)][(k / 3) % 7];
                                runs += 1;
                                st.borrow_mut().fail_kind = runs / 3; // changes every third run: every kind meets every constructor and every call
                                let port = IPort::new(st.clone());
                                // the caller's time-out: ordinary values, zero, sub-millisecond, beyond 2^31 ms, beyond 2^32 s, the maximum
                                let timeout: Duration = [
                                    Duration::from_millis(5000),
                                    Duration::from_millis(1),
                                    Duration::ZERO,
                                    Duration::from_micros(250),
                                    Duration::from_secs(60),
                                    Duration::from_secs(30 * 24 * 3600),
                                    Duration::from_millis(2_147_483_648),
                                    Duration::new(u32::MAX as u64 + 7, 999_999_999),
                                    Duration::MAX,
                                    Duration::from_nanos(1),
                                    Duration::from_millis(1 << 32),
                                    Duration::from_millis((1 << 32) - 1),
                                    Duration::from_millis(3 << 32),
                                    Duration::from_millis(1 << 31),
                                    Duration::from_millis(1 << 16),
                                    Duration::from_secs(1 << 32),
                                    Duration::from_micros(1_000_001),
                                ][k % 17];
                                let treq = format!("{}.{:09}", timeout.as_secs(), timeout.subsec_nanos());
                                out.emit(json!({"e": "setup", "ctor": ctor, "prior": line_json(&prior), "timeout": treq, "fail": fail, "kind": (runs / 3) % DEV_ERROR_KINDS}));
                                let res = match *ctor {
                                    "configure_port" => {
                                        let mut port = port;
                                        catch(|| flipdot_serial::configure_port(&mut port, timeout).is_ok())
                                    }
                                    "bus" => catch(|| SerialSignBus::try_new(port).is_ok()),
                                    _ => catch(|| flipdot_testing::Odk::try_new(port, flipdot_testing::VirtualSignBus::new(vec![])).is_ok()),
                                };
                                let s = st.borrow();
                                for ev in &s.dev_log {
                                    out.emit(ev.clone());
                                }
                                let any_failed = s.dev_log.iter().any(|e| e["ok"] == false);
                                out.emit(json!({"e": "setupret", "res": match res { Ok(true) => "ok", Ok(false) => "err", Err(_) => "panic" },
                                                "final": line_json(&s.line), "timeout_set": s.dev_log.iter().any(|e| e["call"] == "set_timeout" && e["ok"] == true),
                                                "timeout": s.timeout.map(|d| format!("{}.{:09}", d.as_secs(), d.subsec_nanos())).unwrap_or_default(), "any_failed": any_failed}));
                            }
                            k += 1;
                        }
                    }
                }
            }
        }
    }
    out.finish()
}

// ------------------------------------------------------------------ C16 / C18

fn sample_messages(rng: &mut StdRng, thorough: bool) -> Vec<Message<'static>> {
    let mut v: Vec<Message<'static>> = vec![];
    let addrs: Vec<u16> = if thorough { vec![0, 1, 3, 0xFF, 0x100, 0x7FFF, 0x8000, 0xFFFF, rng.r#gen(), rng.r#gen()] } else { vec![3, 0, 0xFFFF, rng.r#gen()] };
    for &a in &addrs {
        let ad = Address(a);
        v.push(Message::Hello(ad));
        v.push(Message::QueryState(ad));
        v.push(Message::Goodbye(ad));
        v.push(Message::PixelsComplete(ad));
        v.push(Message::DataChunksSent(ChunkCount(a)));
        for o in j::OPS {
            v.push(Message::RequestOperation(ad, o));
        }
        for (i, o) in j::OPS.iter().enumerate() {
            if thorough || i % 3 == (a as usize) % 3 {
                v.push(Message::AckOperation(ad, *o));
            }
        }
        for (i, s) in j::STATES.iter().enumerate() {
            if thorough || i % 4 == (a as usize) % 4 {
                v.push(Message::ReportState(ad, *s));
            }
        }
        v.push(Message::Unknown(Frame::new(ad, MsgType(3), Data::try_new(vec![0xA3]).unwrap())));
        v.push(Message::Unknown(Frame::new(ad, MsgType(2), Data::try_new(vec![0x01]).unwrap())));
        v.push(Message::Unknown(Frame::new(ad, MsgType(2), Data::try_new(vec![0x00, 0x00]).unwrap())));
        v.push(Message::Unknown(Frame::new(ad, MsgType(rng.gen_range(7..=255)), Data::try_new(vec![rng.r#gen(); rng.gen_range(0..5)]).unwrap())));
    }
    // the heaviest frames there are (every byte 0xFF: the largest checksum totals)
    v.push(Message::SendData(Offset(0xFFFF), Data::try_new(vec![0xFF; 255]).unwrap()));
    v.push(Message::SendData(Offset(0xFF00), Data::try_new(vec![0xFF; 254]).unwrap()));
    let lens: Vec<usize> = if thorough { (0..=255).collect() } else { vec![0, 1, 2, 15, 16, 17, 254, 255] };
    for len in lens {
        let d: Vec<u8> = (0..len).map(|_| rng.r#gen()).collect();
        v.push(Message::SendData(Offset(rng.r#gen()), Data::try_new(d).unwrap()));
    }
    v
}

fn reply_tapes(rng: &mut StdRng, own: u16) -> Vec<Vec<u8>> {
    let a = Address(own);
    let second = Frame::from(Message::ReportState(a, State::PageLoaded)).to_bytes_with_newline();
    let mut firsts: Vec<Vec<u8>> = vec![];
    for s in j::STATES {
        firsts.push(Frame::from(Message::ReportState(a, s)).to_bytes_with_newline());
    }
    for o in j::OPS {
        firsts.push(Frame::from(Message::AckOperation(a, o)).to_bytes_with_newline());
    }
    firsts.push(Frame::from(Message::ReportState(Address(own.wrapping_add(1)), State::Unconfigured)).to_bytes_with_newline());
    firsts.push(j::mk_frame(9, 9, &[9]).to_bytes_with_newline());
    firsts.push(j::mk_frame(own, 4, &[0x55]).to_bytes_with_newline());
    // a valid reply wrapped in one junk byte before or after (must be an error, not a reply)
    let valid = Frame::from(Message::ReportState(a, State::Unconfigured)).to_bytes();
    for junk in [0x00u8, 0x00, b' ', b'\r', 0xFF, b':', b'0'] {
        let mut t = vec![junk];
        if junk == 0 && firsts.len() % 2 == 0 {
            t.push(0);
        }
        t.extend_from_slice(&valid);
        t.extend_from_slice(b"\r\n");
        firsts.push(t);
        let mut t = valid.clone();
        t.push(junk);
        t.extend_from_slice(b"\r\n");
        firsts.push(t);
    }
    // very long reply lines: noise longer than the longest legal frame followed by a valid frame on the same line;
    // a well-formed line with 256 + k data pairs whose length field is k and whose checksum is right
    for noise_len in [523usize, 524, 600, 2000] {
        let mut t: Vec<u8> = (0..noise_len).map(|i| b"0123456789ABCDEFxyz:"[i % 20]).collect();
        t.extend_from_slice(&valid);
        t.extend_from_slice(b"\r\n");
        firsts.push(t);
    }
    for count in [256usize, 257, 300] {
        let mut payload = vec![(count % 256) as u8, (own >> 8) as u8, own as u8, 0x04];
        payload.extend((0..count).map(|i| if i == 0 { 0x07 } else { 0u8 }));
        let sum = payload.iter().fold(0u8, |a, &b| a.wrapping_add(b));
        payload.push(0u8.wrapping_sub(sum));
        let mut t = vec![b':'];
        for b in &payload {
            t.extend_from_slice(format!("{:02X}", b).as_bytes());
        }
        t.extend_from_slice(b"\r\n");
        firsts.push(t);
    }
    firsts.push(b":01\r\n".to_vec());
    firsts.push(b"\r\n".to_vec());
    firsts.push(b"\n".to_vec());
    firsts.push(b":0100030407F9\r\n".to_vec()); // bad checksum
    firsts.push(Frame::from(Message::ReportState(a, State::ConfigReceived)).to_bytes()); // no terminator at all, then the second line
    let mut bad = Frame::from(Message::AckOperation(a, Operation::StartReset)).to_bytes_with_newline();
    let k = rng.gen_range(1..bad.len() - 2);
    bad[k] = b'G';
    firsts.push(bad);
    // valid replies written with lower-case hex digits (a sign is free to do that), entirely and in the checksum only
    for st8 in [State::ConfigFailed, State::PageShown, State::Unconfigured] {
        let up = Frame::from(Message::ReportState(Address(own | 0xAB00), st8)).to_bytes_with_newline();
        firsts.push(up.to_ascii_lowercase());
        let mut mixed = up.clone();
        let n = mixed.len();
        mixed[n - 4..n - 2].make_ascii_lowercase();
        firsts.push(mixed);
    }
    // the bus's own requests coming back (a half-duplex adapter echoes what was written), in the addresses the messages use
    for ad in [own, 0, 0xFFFF] {
        let a2 = Address(ad);
        firsts.push(Frame::from(Message::Hello(a2)).to_bytes_with_newline());
        firsts.push(Frame::from(Message::QueryState(a2)).to_bytes_with_newline());
        for o in j::OPS {
            firsts.push(Frame::from(Message::RequestOperation(a2, o)).to_bytes_with_newline());
        }
    }
    let mut tapes: Vec<Vec<u8>> = firsts.into_iter().map(|mut f| { f.extend_from_slice(&second); f }).collect();
    tapes.push(vec![]); // nothing: time-out
    tapes
}

fn own_wire(m: &Message<'static>) -> Value {
    j::bytes(&catch(|| Frame::from(m.clone()).to_bytes_with_newline()).unwrap_or_default())
}

/// The first line of `tape` (up to and including the first LF, or everything) and the library's own decoding of it as a reply.
fn direct_reply(tape: &[u8]) -> (Value, Value) {
    let end = tape.iter().position(|&b| b == b'\n').map(|i| i + 1).unwrap_or(tape.len());
    let line = &tape[..end];
    let r = catch(|| Frame::from_bytes(line).map(|f| j::msg(&Message::from(f))));
    let direct = match r {
        Ok(Ok(m)) => m,
        Ok(Err(_)) => json!({"k": "Err", "a": 0, "s": "", "t": 0, "d": []}),
        Err(_) => json!({"k": "Panic", "a": 0, "s": "", "t": 0, "d": []}),
    };
    (j::bytes(line), direct)
}

fn pm_result(r: &Result<Result<Option<Message<'static>>, String>, String>) -> Value {
    match r {
        Ok(Ok(m)) => j::reply(m),
        Ok(Err(_)) => json!({"k": "Err", "a": 0, "s": "", "t": 0, "d": []}),
        Err(_) => json!({"k": "Panic", "a": 0, "s": "", "t": 0, "d": []}),
    }
}

/// One process_message call on a fresh bus over an instrumented port.
fn run_pm(out: &mut TraceOut, m: &Message<'static>, tape: &[u8], io_fail_at: Option<usize>, timed: bool) {
    run_pm_opts(out, m, tape, io_fail_at, 1, None, timed)
}

/// ... `fail_n` consecutive port calls refused from call `io_fail_at` on; a port that accepts at most `cap` bytes per write.
fn run_pm_opts(out: &mut TraceOut, m: &Message<'static>, tape: &[u8], io_fail_at: Option<usize>, fail_n: usize, cap: Option<usize>, timed: bool) {
    run_pm_full(out, m, tape, io_fail_at, fail_n, cap, timed, 0, None)
}

#[allow(clippy::too_many_arguments)]
fn run_pm_full(out: &mut TraceOut, m: &Message<'static>, tape: &[u8], io_fail_at: Option<usize>, fail_n: usize, cap: Option<usize>, timed: bool, kind: usize, intr: Option<usize>) {
    let st = Rc::new(RefCell::new(PortState::new(target_line())));
    let port = IPort::new(st.clone());
    let mut bus = match SerialSignBus::try_new(port) {
        Ok(b) => b,
        Err(_) => return,
    };
    {
        let mut s = st.borrow_mut();
        s.rx = tape.iter().copied().collect();
        s.io_fail_at = io_fail_at;
        s.io_fail_n = fail_n;
        s.write_cap = cap;
        s.io_kind = kind;
        s.intr_every = intr;
        s.io_calls = 0;
        s.io_log.clear();
        s.tx.clear();
        s.t0 = Instant::now();
    }
    out.emit(json!({"e": "pm", "m": j::msg(m), "rx": j::bytes(tape), "wire": own_wire(m), "fail_at": io_fail_at.map(|x| x as i64).unwrap_or(-1)}));
    let r = catch(|| bus.process_message(m.clone()).map(|o| o.map(|x| j::msg_from(&j::msg(&x)))).map_err(|e| e.to_string()));
    let t_ret = st.borrow().now();
    let s = st.borrow();
    for ev in &s.io_log {
        let mut e = ev.clone();
        if !timed {
            let o = e.as_object_mut().unwrap();
            let _ = o.remove("t0");
            let _ = o.remove("t1");
        }
        out.emit(e);
    }
    let (line, direct) = direct_reply(tape);
    let mut ret = json!({"e": "pmret", "res": pm_result(&r), "txd": j::bytes(&s.tx), "rxleft": s.rx.len(), "line": line, "direct": direct});
    if timed {
        ret["t"] = json!(t_ret);
    }
    out.emit(ret);
}

/// Several messages on ONE bus, with a pattern of write / read faults (two consecutive faults, a fault then a success, ...).
fn run_session(out: &mut TraceOut, msgs: &[Message<'static>], pattern: &[u8], tape: &[u8]) {
    let st = Rc::new(RefCell::new(PortState::new(target_line())));
    let mut bus = match SerialSignBus::try_new(IPort::new(st.clone())) {
        Ok(b) => b,
        Err(_) => return,
    };
    for (k, m) in msgs.iter().enumerate() {
        let fault = pattern[k % pattern.len()]; // 0 none, 1 write fault, 2 read fault
        let expects = matches!(m, Message::Hello(_) | Message::QueryState(_) | Message::RequestOperation(_, _));
        {
            let mut s = st.borrow_mut();
            s.rx = tape.iter().copied().collect();
            s.io_calls = 0;
            s.io_fail_at = match fault {
                1 => Some(0),
                2 if expects => Some(1),
                _ => None,
            };
            s.io_log.clear();
            s.tx.clear();
        }
        out.emit(json!({"e": "pm", "m": j::msg(m), "rx": j::bytes(tape), "wire": own_wire(m), "fail_at": fault}));
        let r = catch(|| bus.process_message(m.clone()).map(|o| o.map(|x| j::msg_from(&j::msg(&x)))).map_err(|e| e.to_string()));
        let s = st.borrow();
        for ev in &s.io_log {
            let mut e = ev.clone();
            let o = e.as_object_mut().unwrap();
            let _ = o.remove("t0");
            let _ = o.remove("t1");
            out.emit(e);
        }
        let (line, direct) = direct_reply(tape);
        out.emit(json!({"e": "pmret", "res": pm_result(&r), "txd": j::bytes(&s.tx), "rxleft": s.rx.len(), "line": line, "direct": direct}));
    }
}

pub fn record_c16(a: &Args) -> usize {
    let thorough = a.tier == "thorough";
    let mut rng = StdRng::seed_from_u64(a.seed ^ 0xC16);
    let mut out = TraceOut::new(&a.out, "C16", a.shards);
    let msgs = sample_messages(&mut rng, thorough);
    let mut n = 0usize;
    for m in &msgs {
        // SendData is paced by 30 ms per call: keep the number of data-chunk calls moderate
        let is_sd = matches!(m, Message::SendData(_, _));
        let tapes = reply_tapes(&mut rng, 3);
        let pick: Vec<&Vec<u8>> = if is_sd { tapes.iter().step_by(9).collect() } else if thorough { tapes.iter().collect() } else { tapes.iter().skip(n % 3).step_by(3).collect() };
        for t in pick {
            if n % 16 == 0 {
                out.balance();
            }
            n += 1;
            run_pm(&mut out, m, t, None, false);
        }
        // the request itself coming back as the reply line (local echo), followed by a genuine reply
        if matches!(m, Message::Hello(_) | Message::QueryState(_) | Message::RequestOperation(_, _)) {
            let mut t = catch(|| Frame::from(m.clone()).to_bytes_with_newline()).unwrap_or_default();
            t.extend_from_slice(&Frame::from(Message::ReportState(Address(3), State::PageLoaded)).to_bytes_with_newline());
            run_pm(&mut out, m, &t, None, false);
        }
        // a failure injected at each port operation of the exchange
        if !is_sd || n % 8 == 0 {
            for f in 0..3 {
                run_pm(&mut out, m, &tapes[n % tapes.len()], Some(f), false);
            }
        }
    }
    // a hard error of every kind at every read of the reply line (first byte .. line feed), and interrupted calls (EINTR, which
    // is not a failure) sprinkled over the whole exchange
    {
        let a3 = Address(3);
        let reply = Frame::from(Message::ReportState(a3, State::PageShown)).to_bytes_with_newline();
        let long_reply = Frame::from(Message::Unknown(Frame::new(a3, MsgType(9), Data::try_new(vec![0xEE; 20]).unwrap()))).to_bytes_with_newline();
        for (mi, m) in [Message::QueryState(a3), Message::Hello(Address(0xFFFF)), Message::RequestOperation(a3, Operation::LoadNextPage)].iter().enumerate() {
            for (ri, rep) in [&reply, &long_reply].into_iter().enumerate() {
                let mut tape = rep.clone();
                tape.extend_from_slice(&reply);
                for pos in 1..=rep.len() + 1 {
                    for kind in 0..ERR_KINDS.len() {
                        if thorough || (pos + kind + mi + ri) % 4 == 0 || kind == 2 {
                            out.balance();
                            run_pm_full(&mut out, m, &tape, Some(pos), 1, None, false, kind, None);
                        }
                    }
                }
                for every in [2usize, 3, 5, 7] {
                    run_pm_full(&mut out, m, &tape, None, 1, Some(3), false, 0, Some(every));
                    run_pm_full(&mut out, m, &tape, None, 1, None, false, 0, Some(every));
                }
            }
        }
    }
    // a port that takes only a few bytes per write call (a legal short write: the frame must still go out whole), alone and
    // together with a refusal of the k-th port call
    let own3 = Address(3);
    let reply = Frame::from(Message::ReportState(own3, State::PageLoaded)).to_bytes_with_newline();
    let short_msgs = vec![Message::Hello(own3), Message::QueryState(own3), Message::Goodbye(own3), Message::DataChunksSent(ChunkCount(9)),
                          Message::RequestOperation(own3, Operation::ShowLoadedPage), Message::ReportState(own3, State::Unconfigured),
                          Message::SendData(Offset(0), Data::try_new(vec![0xC3; 16]).unwrap()), Message::SendData(Offset(16), Data::try_new(vec![0x11; 255]).unwrap())];
    for (mi, m) in short_msgs.iter().enumerate() {
        let wl = wire_len(m);
        for cap in [1usize, 2, 7, 14, 15, 16, 32, 46, 47, 64, 512] {
            if cap > wl + 1 || (!thorough && wl > 100 && cap < 32) {
                continue;
            }
            out.balance();
            run_pm_opts(&mut out, m, &reply, None, 1, Some(cap), false);
            let calls = (wl + cap - 1) / cap + 2;
            for f in 0..calls {
                if thorough || f < 3 || f + 3 >= calls || (f + mi) % 7 == 0 {
                    run_pm_opts(&mut out, m, &reply, Some(f), 1 + (f + mi) % 3, Some(cap), false);
                }
            }
        }
    }
    // sessions: every fault pattern of length 4 over {none, write fault, read fault} on one bus
    let own = Address(3);
    let session_msgs = vec![Message::PixelsComplete(own), Message::Hello(own), Message::DataChunksSent(ChunkCount(2)), Message::QueryState(own),
                            Message::Goodbye(own), Message::RequestOperation(own, Operation::StartReset)];
    let tape = Frame::from(Message::ReportState(own, State::ConfigReceived)).to_bytes_with_newline();
    for code in 0..81u32 {
        let pattern = [(code % 3) as u8, ((code / 3) % 3) as u8, ((code / 9) % 3) as u8, ((code / 27) % 3) as u8, 0, 0];
        out.balance();
        run_session(&mut out, &session_msgs, &pattern, &tape);
    }
    out.finish()
}

fn wire_len(m: &Message<'static>) -> usize {
    catch(|| Frame::from(m.clone()).to_bytes_with_newline().len()).unwrap_or(0)
}

/// Pacing traces need the sizes and times of port calls, not the bytes.
fn strip_data(mut ev: Value) -> Value {
    if let Some(o) = ev.as_object_mut() {
        let _ = o.remove("data");
    }
    ev
}

/// C18: a sequence of messages on one bus with monotonic time stamps at the port's read/write boundaries.
pub fn record_c18(a: &Args) -> usize {
    let thorough = a.tier == "thorough";
    let trials = if thorough { 16 } else { 8 };
    let mut rng = StdRng::seed_from_u64(a.seed ^ 0xC18);
    let mut out = TraceOut::new(&a.out, "C18", 1);
    let own = Address(3);
    // every message kind, each followed immediately by the next message (the gap to the next write is what is paced)
    let mut msgs: Vec<Message<'static>> = vec![];
    for trial in 0..trials {
        msgs.push(Message::Hello(own));
        msgs.push(Message::QueryState(own));
        msgs.push(Message::Goodbye(own));
        msgs.push(Message::PixelsComplete(own));
        msgs.push(Message::DataChunksSent(ChunkCount(3)));
        for o in j::OPS {
            msgs.push(Message::RequestOperation(own, o));
        }
        msgs.push(Message::Unknown(Frame::new(own, MsgType(9), Data::try_new(vec![1]).unwrap())));
        msgs.push(Message::ReportState(own, State::PageLoadInProgress));
        msgs.push(Message::AckOperation(own, Operation::LoadNextPage));
        for len in [0usize, 1, 16, 255] {
            let d: Vec<u8> = (0..len).map(|_| rng.r#gen()).collect();
            msgs.push(Message::SendData(Offset(16), Data::try_new(d).unwrap()));
            msgs.push(Message::DataChunksSent(ChunkCount(1)));
        }
        if trial == 0 {
            // a data chunk of every length class (thorough: every length): the pause does not depend on the size
            for len in 0..=255usize {
                if thorough || len % 8 == 0 || len % 16 == 1 || len % 16 == 15 {
                    msgs.push(Message::SendData(Offset(len as u16), Data::try_new(vec![(len % 251) as u8; len]).unwrap()));
                    msgs.push(Message::Goodbye(own));
                }
            }
        }
        msgs.push(Message::SendData(Offset(0), Data::try_new(vec![7; 16]).unwrap()));
        msgs.push(Message::SendData(Offset(16), Data::try_new(vec![8; 16]).unwrap()));
        msgs.push(Message::PixelsComplete(own));
    }
    // replies: every state and every ack, in turn, to the reply-expecting messages
    let mut replies: Vec<Message<'static>> = vec![];
    for s in j::STATES {
        replies.push(Message::ReportState(own, s));
    }
    for o in j::OPS {
        replies.push(Message::AckOperation(own, o));
    }
    replies.push(Message::ReportState(Address(9), State::PageLoadInProgress));
    replies.push(Message::Unknown(Frame::new(own, MsgType(4), Data::try_new(vec![0x13, 0]).unwrap())));
    let st = Rc::new(RefCell::new(PortState::new(target_line())));
    let mut bus = SerialSignBus::try_new(IPort::new(st.clone())).expect("bus");
    {
        let mut s = st.borrow_mut();
        s.io_log.clear();
        s.io_calls = 0;
        s.t0 = Instant::now();
    }
    let mut ri = 0usize;
    let mut n = 0usize;
    let mut late = 0usize;
    for (mi, m) in msgs.iter().enumerate() {
        let expects = matches!(m, Message::Hello(_) | Message::QueryState(_) | Message::RequestOperation(_, _));
        let mut reply = None;
        if expects {
            let r = replies[ri % replies.len()].clone();
            ri += 1;
            let mut s = st.borrow_mut();
            s.rx.extend(Frame::from(r.clone()).to_bytes_with_newline());
            // the reply arrives late now and then (the pause must count from its receipt): in-progress reports
            // arrive on time, 60 ms late and 130 ms late in turn; other replies are late occasionally
            let inprog = matches!(r, Message::ReportState(_, State::PageLoadInProgress) | Message::ReportState(_, State::PageShowInProgress));
            if inprog {
                late += 1;
                if late % 3 != 0 {
                    s.read_latency = Some(Duration::from_millis(if late % 3 == 1 { 60 } else { 130 }));
                }
            } else if mi % 11 == 3 {
                s.read_latency = Some(Duration::from_millis(45));
            }
            reply = Some(r);
        }
        let t_call = st.borrow().now();
        let r = catch(|| bus.process_message(m.clone()).map(|o| o.map(|x| j::msg_from(&j::msg(&x)))).map_err(|e| e.to_string()));
        let t_ret = st.borrow().now();
        let mut s = st.borrow_mut();
        out.emit(json!({"e": "pm", "m": j::msg(m), "t": t_call, "wlen": wire_len(m), "reply": reply.as_ref().map(j::msg).unwrap_or(j::reply(&None))}));
        for ev in s.io_log.drain(..) {
            out.emit(strip_data(ev));
        }
        out.emit(json!({"e": "pmret", "res": pm_result(&r), "t": t_ret}));
        s.tx.clear();
        n += 1;
    }
    // one call with the port's fault schedule / write granularity set for that call only
    let mut call = |out: &mut TraceOut, m: &Message<'static>, reply: Option<Message<'static>>, fail_at: Option<usize>, fail_n: usize, cap: Option<usize>| {
        {
            let mut s = st.borrow_mut();
            s.io_calls = 0;
            s.io_fail_at = fail_at;
            s.io_fail_n = fail_n;
            s.write_cap = cap;
            s.rx.clear();
            if let Some(r) = &reply {
                s.rx.extend(Frame::from(r.clone()).to_bytes_with_newline());
            }
        }
        let t_call = st.borrow().now();
        let r = catch(|| bus.process_message(m.clone()).map(|o| o.map(|x| j::msg_from(&j::msg(&x)))).map_err(|e| e.to_string()));
        let t_ret = st.borrow().now();
        let mut s = st.borrow_mut();
        out.emit(json!({"e": "pm", "m": j::msg(m), "t": t_call, "wlen": wire_len(m), "reply": reply.as_ref().map(j::msg).unwrap_or(j::reply(&None))}));
        for ev in s.io_log.drain(..) {
            out.emit(strip_data(ev));
        }
        out.emit(json!({"e": "pmret", "res": pm_result(&r), "t": t_ret}));
        s.tx.clear();
        s.io_fail_at = None;
        s.write_cap = None;
    };
    // a long unbroken run of in-progress reports (a pause that shrinks, or a counter that runs out, shows only late)
    let run = if thorough { 70 } else { 36 };
    for k in 0..run {
        let st8 = if k % 2 == 0 { State::PageLoadInProgress } else { State::PageShowInProgress };
        let m = if k % 5 == 4 { Message::RequestOperation(own, Operation::LoadNextPage) } else { Message::QueryState(own) };
        call(&mut out, &m, Some(Message::ReportState(own, st8)), None, 1, None);
    }
    // data chunks on a port that takes only a few bytes per write and / or refuses one, two or three consecutive I/O calls
    // (writes and flushes): once the whole chunk is out, the next message waits, whatever the call itself reported
    let chunk = Message::SendData(Offset(32), Data::try_new(vec![0x5A; 16]).unwrap());
    for cap in [None, Some(16usize), Some(5)] {
        call(&mut out, &chunk, None, None, 1, cap);
        call(&mut out, &Message::DataChunksSent(ChunkCount(1)), None, None, 1, cap);
        for fail_at in 0..4usize {
            for fail_n in 1..=3usize {
                if !thorough && cap.is_some() && (fail_at + fail_n) % 2 == 0 {
                    continue;
                }
                call(&mut out, &chunk, None, Some(fail_at), fail_n, cap);
                call(&mut out, &Message::Goodbye(own), None, None, 1, None);
            }
        }
    }
    // a caller that was idle before a paced exchange (the pause protects the message *after* the chunk, whatever came before it),
    // one that dawdles for part of the pause itself, and one whose thread holds a pending wake-up token (a pause built on parking
    // returns at once then)
    for idle in [10u64, 35, 45, 120] {
        call(&mut out, &Message::Goodbye(own), None, None, 1, None);
        std::thread::sleep(Duration::from_millis(idle));
        call(&mut out, &chunk, None, None, 1, None);
        call(&mut out, &Message::DataChunksSent(ChunkCount(1)), None, None, 1, None);
        call(&mut out, &chunk, None, None, 1, None);
        std::thread::sleep(Duration::from_millis(idle.min(20)));
        call(&mut out, &Message::PixelsComplete(own), None, None, 1, None);
        std::thread::sleep(Duration::from_millis(idle));
        call(&mut out, &Message::QueryState(own), Some(Message::ReportState(own, State::PageShowInProgress)), None, 1, None);
    }
    for _ in 0..3 {
        std::thread::current().unpark();
        call(&mut out, &chunk, None, None, 1, None);
        call(&mut out, &Message::Goodbye(own), None, None, 1, None);
        std::thread::current().unpark();
        call(&mut out, &Message::QueryState(own), Some(Message::ReportState(own, State::PageLoadInProgress)), None, 1, None);
        std::thread::current().unpark();
        call(&mut out, &Message::Hello(own), Some(Message::ReportState(own, State::PageShowInProgress)), None, 1, None);
        call(&mut out, &chunk, None, None, 1, None);
        call(&mut out, &chunk, None, None, 1, None);
        call(&mut out, &Message::DataChunksSent(ChunkCount(2)), None, None, 1, None);
    }
    // leave no token behind for whatever runs next on this thread
    std::thread::park_timeout(Duration::from_millis(0));
    out.emit(json!({"e": "end"}));
    let _ = n;
    out.finish()
}
