"""Per-property check plans.  Each function receives a vlib.Check and returns the exit code."""
import os

import vlib
from vlib import log

SPEC = vlib.SPEC


def mc_cfg(module, tier):
    return "%s_%s.cfg" % (module, tier)


def gen_and_replay(c, module, name, what, workers=8, timeout=1800, **kw):
    """M+G: model-check `module` with its tier cfg, piping the vectors it emits to a file, then replay them."""
    d = vlib.workdir(c.prop, "gen_" + module)
    path = os.path.join(d, "vectors.ndjson")
    with open(path, "w") as sink:
        r = c.mc(module, mc_cfg(module, c.tier), workers=workers, timeout=timeout, gen_tag="GEN", gen_sink=sink, **kw)
    c.replay_vectors(name, path, what)
    return r


PROCS = 14


# --------------------------------------------------------------------------- C01
def c01(c):
    gen_and_replay(c, "MC_Frame", "C01", "frames of the boundary domain with their documented encoding")
    shards = 16 if c.tier == "thorough" else 4
    files, n, _ = vlib.record("C01", c.tier, c.seed, shards)
    c.validate("Trace_Codec", "Trace_Codec.cfg", files, ["record", "C01"], procs=PROCS)
    c.assumptions += ["TLC evaluates Frame.tla (Encode, Decode, ShapeOK, SumZero) as the oracle; the recorded values come from "
                      "Frame::new/to_bytes/to_bytes_with_newline/from_bytes/Data::try_new of the current tree",
                      "quick samples 2061 of the 65536 addresses (all byte-boundary values); thorough takes every address once"]
    return c.finish("model_checking",
                    "M: every frame of the boundary domain is a TLC state with the C01 invariants; G: each is replayed into the real codec "
                    "(owned and borrowed data); V: frames over the full domain (every type, every length 0..=255, every single byte value) "
                    "are encoded/decoded by the real code and each recorded result is checked by TLC; distinct = distinct frames")


# --------------------------------------------------------------------------- C02
def c02(c):
    r = c.mc("MC_Corrupt", mc_cfg("MC_Corrupt", c.tier), workers=12, timeout=3000, coverage=False)
    shards = 16 if c.tier == "thorough" else 12
    files, n, _ = vlib.record("C02", c.tier, c.seed, shards)
    c.validate("Trace_Codec", "Trace_Codec.cfg", files, ["record", "C02"], procs=PROCS, timeout=3000)
    c.assumptions += ["damage model = the five classes named by the property, applied once to a valid encoding (with and without CRLF)",
                      "the real decoder's verdict on every damaged string is compared with Frame!Decode and with DamageSafe"]
    c.exhaustive = True
    return c.finish("model_checking",
                    "M: for every frame of a bounded domain TLC enumerates every damaged string and checks it decodes to an error or the original; "
                    "V: for sample frames (incl. 255-byte ones in thorough) the harness applies every position x every byte 0..=255 substitution, "
                    "every deletion, duplication, unequal adjacent swap and proper prefix to the real encoding, decodes with the real decoder, "
                    "and TLC checks each verdict; distinct = distinct damaged strings")


# --------------------------------------------------------------------------- C03
def c03(c):
    gen_and_replay(c, "MC_Decode", "C03", "byte strings (all short strings over the structural alphabet + prefix/body/suffix variations) with Decode's verdict")
    shards = 16 if c.tier == "thorough" else 6
    files, n, _ = vlib.record("C03", c.tier, c.seed, shards)
    c.validate("Trace_Codec", "Trace_Codec.cfg", files, ["record", "C03"], procs=PROCS, timeout=3000)
    c.assumptions += ["a panic of Frame::from_bytes is recorded as result kind 'panic', which equals no specification value"]
    return c.finish("model_checking",
                    "M: Decode is checked against the declarative Wellformed/consistency predicates on every enumerated string; G: each string with its "
                    "expected classification and fields is fed to Frame::from_bytes; V: random/mutated strings over all 256 byte values are decoded "
                    "by the real code and TLC checks result, error fields, precedence and re-encoding; distinct = distinct strings")


# --------------------------------------------------------------------------- C04
def c04(c):
    gen_and_replay(c, "MC_Message", "C04", "frames over all types x first bytes x lengths with the message the code table assigns")
    shards = 16 if c.tier == "thorough" else 6
    files, n, _ = vlib.record("C04", c.tier, c.seed, shards)
    c.validate("Trace_Codec", "Trace_Codec.cfg", files, ["record", "C04"], procs=PROCS, timeout=3000)
    c.assumptions += ["thorough covers all 65536 addresses for each of the 31 recognised codes; quick 219 addresses incl. byte boundaries"]
    return c.finish("model_checking",
                    "M: identity, table membership and address preservation as invariants over the frame domain; G: each frame/message pair is replayed "
                    "through Message::from and Frame::from; V: the real conversions are recorded for every recognised code over the address range, all "
                    "near misses (every type x every first byte at lengths 0/1/2) and random frames, each checked by TLC; distinct = distinct frames")


# --------------------------------------------------------------------------- C05
def c05(c):
    gen_and_replay(c, "MC_MsgWire", "C05", "specific messages with their wire encoding")
    shards = 16 if c.tier == "thorough" else 6
    files, n, _ = vlib.record("C05", c.tier, c.seed, shards)
    c.validate("Trace_Codec", "Trace_Codec.cfg", files, ["record", "C05"], procs=PROCS, timeout=3000)
    c.assumptions += ["injectivity on the real code follows from the per-message round trip (wire(m1)=wire(m2) implies m1=decode(wire)=m2); "
                      "on the model it is additionally checked as a cardinality assumption"]
    return c.finish("model_checking",
                    "M: round trip through the wire and pairwise-distinct wires over the bounded message set; G: each message replayed; V: every message "
                    "kind x addresses/offsets/counts across the 16-bit range x all 13 states x all 6 operations, SendData of every length 0..=255, "
                    "recorded from the real code and checked by TLC; distinct = distinct messages")


CHECKS = {"C01": c01, "C02": c02, "C03": c03, "C04": c04, "C05": c05}
