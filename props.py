"""Per-property check plans.  Each function receives a vlib.Check and returns the exit code."""
import os

import vlib
from vlib import log

SPEC = vlib.SPEC


def mc_cfg(module, tier):
    return "%s_%s.cfg" % (module, tier)


def gen_and_replay(c, module, name, what, workers=8, timeout=1800, **kw):
    """M+G: model-check `module` with its tier cfg, piping the vectors it emits to a file, then replay them."""
    d = vlib.workdir(c.prop, "gen_" + module)
    path = os.path.join(d, "vectors.ndjson")
    with open(path, "w") as sink:
        r = c.mc(module, mc_cfg(module, c.tier), workers=workers, timeout=timeout, gen_tag="GEN", gen_sink=sink, **kw)
    c.replay_vectors(name, path, what)
    return r


PROCS = 14


# --------------------------------------------------------------------------- C01
def c01(c):
    gen_and_replay(c, "MC_Frame", "C01", "frames of the boundary domain with their documented encoding")
    shards = 16 if c.tier == "thorough" else 4
    files, n, _ = vlib.record("C01", c.tier, c.seed, shards)
    c.validate("Trace_Codec", "Trace_Codec.cfg", files, ["record", "C01"], procs=PROCS)
    c.assumptions += ["TLC evaluates Frame.tla (Encode, Decode, ShapeOK, SumZero) as the oracle; the recorded values come from "
                      "Frame::new/to_bytes/to_bytes_with_newline/from_bytes/Data::try_new of the current tree",
                      "quick samples 2061 of the 65536 addresses (all byte-boundary values); thorough takes every address once"]
    return c.finish("model_checking",
                    "M: every frame of the boundary domain is a TLC state with the C01 invariants; G: each is replayed into the real codec "
                    "(owned and borrowed data); V: frames over the full domain (every type, every length 0..=255, every single byte value) "
                    "are encoded/decoded by the real code and each recorded result is checked by TLC; distinct = distinct frames")


# --------------------------------------------------------------------------- C02
def c02(c):
    r = c.mc("MC_Corrupt", mc_cfg("MC_Corrupt", c.tier), workers=12, timeout=3000, coverage=False)
    shards = 16 if c.tier == "thorough" else 12
    files, n, _ = vlib.record("C02", c.tier, c.seed, shards)
    c.validate("Trace_Codec", "Trace_Codec.cfg", files, ["record", "C02"], procs=PROCS, timeout=3000)
    c.assumptions += ["damage model = the five classes named by the property, applied once to a valid encoding (with and without CRLF)",
                      "the real decoder's verdict on every damaged string is compared with Frame!Decode and with DamageSafe"]
    c.exhaustive = True
    return c.finish("model_checking",
                    "M: for every frame of a bounded domain TLC enumerates every damaged string and checks it decodes to an error or the original; "
                    "V: for sample frames (incl. 255-byte ones in thorough) the harness applies every position x every byte 0..=255 substitution, "
                    "every deletion, duplication, unequal adjacent swap and proper prefix to the real encoding, decodes with the real decoder, "
                    "and TLC checks each verdict; distinct = distinct damaged strings")


# --------------------------------------------------------------------------- C03
def c03(c):
    gen_and_replay(c, "MC_Decode", "C03", "byte strings (all short strings over the structural alphabet + prefix/body/suffix variations) with Decode's verdict")
    shards = 16 if c.tier == "thorough" else 6
    files, n, _ = vlib.record("C03", c.tier, c.seed, shards)
    c.validate("Trace_Codec", "Trace_Codec.cfg", files, ["record", "C03"], procs=PROCS, timeout=3000)
    c.assumptions += ["a panic of Frame::from_bytes is recorded as result kind 'panic', which equals no specification value"]
    return c.finish("model_checking",
                    "M: Decode is checked against the declarative Wellformed/consistency predicates on every enumerated string; G: each string with its "
                    "expected classification and fields is fed to Frame::from_bytes; V: random/mutated strings over all 256 byte values are decoded "
                    "by the real code and TLC checks result, error fields, precedence and re-encoding; distinct = distinct strings")


# --------------------------------------------------------------------------- C04
def c04(c):
    gen_and_replay(c, "MC_Message", "C04", "frames over all types x first bytes x lengths with the message the code table assigns")
    shards = 16 if c.tier == "thorough" else 6
    files, n, _ = vlib.record("C04", c.tier, c.seed, shards)
    c.validate("Trace_Codec", "Trace_Codec.cfg", files, ["record", "C04"], procs=PROCS, timeout=3000)
    c.assumptions += ["thorough covers all 65536 addresses for each of the 31 recognised codes; quick 219 addresses incl. byte boundaries"]
    return c.finish("model_checking",
                    "M: identity, table membership and address preservation as invariants over the frame domain; G: each frame/message pair is replayed "
                    "through Message::from and Frame::from; V: the real conversions are recorded for every recognised code over the address range, all "
                    "near misses (every type x every first byte at lengths 0/1/2) and random frames, each checked by TLC; distinct = distinct frames")


# --------------------------------------------------------------------------- C05
def c05(c):
    gen_and_replay(c, "MC_MsgWire", "C05", "specific messages with their wire encoding")
    shards = 16 if c.tier == "thorough" else 6
    files, n, _ = vlib.record("C05", c.tier, c.seed, shards)
    c.validate("Trace_Codec", "Trace_Codec.cfg", files, ["record", "C05"], procs=PROCS, timeout=3000)
    c.assumptions += ["injectivity on the real code follows from the per-message round trip (wire(m1)=wire(m2) implies m1=decode(wire)=m2); "
                      "on the model it is additionally checked as a cardinality assumption"]
    return c.finish("model_checking",
                    "M: round trip through the wire and pairwise-distinct wires over the bounded message set; G: each message replayed; V: every message "
                    "kind x addresses/offsets/counts across the 16-bit range x all 13 states x all 6 operations, SendData of every length 0..=255, "
                    "recorded from the real code and checked by TLC; distinct = distinct messages")


# --------------------------------------------------------------------------- C12 / C13 / C14
def vsign_graph(c, name, what, cfgs):
    """M+G on MC_VSign for each cfg (flip styles): model-check and replay the emitted state graph."""
    for cfg in cfgs:
        d = vlib.workdir(c.prop, "gen_" + cfg)
        path = os.path.join(d, "graph.ndjson")
        with open(path, "w") as sink:
            c.mc("MC_VSign", "MC_VSign_%s.cfg" % cfg, workers=10, timeout=3000, gen_tag="GEN", gen_sink=sink, coverage=False)
        c.replay_vectors(name, path, what + " [" + cfg + "]")
        os.remove(path)


def vsign_key(prefix):
    def key(ev, ctx):
        # canonical key of a rejected event: the message and the observed reply/state (not the whole history)
        import json
        return "%s:%s" % (prefix, json.dumps({"m": ev.get("m"), "r": ev.get("r"), "st": (ev.get("obs") or {}).get("st") if isinstance(ev.get("obs"), dict) else None}, sort_keys=True)[:400])
    return key


def c12(c):
    cfgs = ["thorough", "thorough_auto"] if c.tier == "thorough" else ["quick", "quick_auto"]
    vsign_graph(c, "C12", "every transition of the model's state graph delivered to a real VirtualSign under catch_unwind", cfgs)
    shards = 16 if c.tier == "thorough" else 8
    files, n, out = vlib.record("C12", c.tier, c.seed, shards)
    c.details["recorder"] = out.strip().splitlines()[0][:500]
    c.validate("Trace_Monitor", "Trace_Monitor.cfg", files, ["record", "C12"], procs=PROCS, timeout=3000, key_fn=vsign_key("C12"))
    c.assumptions += ["a panic inside VirtualSign::process_message / VirtualSignBus::process_message is caught and recorded as reply kind 'Panic'; "
                      "the monitor rejects it", "harness is built with debug assertions and overflow checks on, like the repository's test profile",
                      "the 65536+5-chunk history (16-bit counter wrap) is only run in the thorough tier"]
    return c.finish("model_checking",
                    "M: VirtualSign!Step is total on every reachable model state (TLC evaluates every alphabet message in every state); G: each of those "
                    "transitions is delivered to a real sign; V: long random walks over the wide alphabet (every kind, own/foreign address, chunks of every "
                    "length, arbitrary configuration blocks, counts below/equal/above) on single signs and buses of 1..4 signs, plus directed lost/short/"
                    "extra/duplicated-chunk and wrong-count transfers for all 11 sign types, validated by the reference-free monitor "
                    "(no panic; a count announcement to a receiving sign ends in received/failed); distinct = delivered messages")


def c13(c):
    cfgs = ["thorough", "thorough_auto"] if c.tier == "thorough" else ["quick", "quick_auto"]
    vsign_graph(c, "C13", "model state graph {path, projection, every alphabet edge} replayed into a real VirtualSign", cfgs)
    shards = 16 if c.tier == "thorough" else 8
    files, n, out = vlib.record("C13", c.tier, c.seed, shards)
    c.details["recorder"] = out.strip().splitlines()[0][:500]
    c.validate("Trace_VSign", "Trace_VSign.cfg", files, ["record", "C13"], procs=PROCS, timeout=3000, key_fn=vsign_key("C13"))
    c.assumptions += ["model bounds: buffered bytes, stored pages and chunk counter bounded per cfg (quick: 32 bytes / 1 page / 2; thorough: 48 / 2 / 4)",
                      "implementation-side BFS bounds: at most 3 (quick) / 4 (thorough) data chunks per transfer on a path, 1 / 2 stored pages",
                      "observation through state(), sign_type(), pages() and the replies only; pending bytes, counter, width, height are inferred by TLC"]
    return c.finish("model_checking",
                    "M: invariants (stored pages complete, buffer only while receiving, counter zero outside transfers) and the documented per-step "
                    "behaviour on every reachable state of the bounded model, both flip styles; G: one implementation test per model transition; "
                    "V: breadth-first search over the real implementation's own Hash/Eq state with every alphabet message probed at every node, plus "
                    "random walks and directed transfers on real sign sizes, every event validated by TLC against VirtualSign!Step; "
                    "distinct = model transitions + implementation transitions")


def c14(c):
    d = vlib.workdir(c.prop, "gen_bus")
    path = os.path.join(d, "graph.ndjson")
    with open(path, "w") as sink:
        c.mc("MC_Bus", "MC_Bus_%s.cfg" % c.tier, workers=10, timeout=3000, gen_tag="GEN", gen_sink=sink, coverage=False)
    c.replay_vectors("C14", path, "every state of the 2-sign model reached on a real VirtualSignBus; C14 relations checked for every alphabet message")
    os.remove(path)
    # 3 and 4 signs: random simulation of the model (invariants Isolation/Inv on every visited state)
    sims = [("sim3", "num=300" if c.tier == "quick" else "num=5000", 60)]
    if c.tier == "thorough":
        sims.append(("sim4", "num=3000", 60))
    for cfg, num, depth in sims:
        r = vlib.run_mc(c.prop, "MC_Bus", "MC_Bus_%s.cfg" % cfg, "mc", workers=4, timeout=600, coverage=False, simulate=(num, depth))
        log("[M] MC_Bus/%s simulate %s depth %d: ok=%s, %.1fs" % (cfg, num, depth, r["ok"], r["wall"]))
        if r["rc"] not in (0, 124) or "Error:" in r["tail"]:
            log(r["tail"][-2000:])
            raise vlib.ToolError("simulation of MC_Bus/%s failed" % cfg)
        c.details.setdefault("model_runs", []).append({"module": "MC_Bus", "cfg": cfg, "mode": "simulate " + num, "depth": depth})
    shards = 16 if c.tier == "thorough" else 8
    files, n, out = vlib.record("C14", c.tier, c.seed, shards)
    c.details["recorder"] = out.strip().splitlines()[0][:500]
    c.validate("Trace_Monitor", "Trace_Monitor.cfg", files, ["record", "C14"], procs=PROCS, timeout=3000, key_fn=vsign_key("C14"))
    c.assumptions += ["populations of 1..4 signs with distinct addresses (random and boundary addresses), mixed flip styles",
                      "the monitor is reference-free: it compares the bus's reply and per-sign projections with what a solo clone of each sign did"]
    return c.finish("model_checking",
                    "M: AddressedIsolation and UnaddressedOnlyReceiving for every alphabet message in every reachable state of the exhaustive 2-sign model "
                    "(both signs can be mid-transfer at once) and in simulated 3- and 4-sign behaviours; G: the model's witness paths drive a real "
                    "VirtualSignBus into every model state, where every alphabet message is applied to the bus and to solo clones of its signs and the "
                    "C14 relations are checked on the observations; V: random interleavings on 1..4 real signs validated by the reference-free C14 "
                    "monitor in TLC (Trace_Monitor!Isolation); conformance of the values with the state machine is C13's business; distinct = bus transitions")


CHECKS = {"C12": c12, "C13": c13, "C14": c14, "C01": c01, "C02": c02, "C03": c03, "C04": c04, "C05": c05}
