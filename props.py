"""Per-property check plans.  Each function receives a vlib.Check and returns the exit code."""
import os

import vlib
from vlib import log

SPEC = vlib.SPEC


def mc_cfg(module, tier):
    return "%s_%s.cfg" % (module, tier)


def gen_and_replay(c, module, name, what, workers=8, timeout=1800, **kw):
    """M+G: model-check `module` with its tier cfg, piping the vectors it emits to a file, then replay them."""
    d = vlib.workdir(c.prop, "gen_" + module)
    path = os.path.join(d, "vectors.ndjson")
    with open(path, "w") as sink:
        r = c.mc(module, mc_cfg(module, c.tier), workers=workers, timeout=timeout, gen_tag="GEN", gen_sink=sink, **kw)
    c.replay_vectors(name, path, what)
    return r


PROCS = 14


# --------------------------------------------------------------------------- C01
def c01(c):
    gen_and_replay(c, "MC_Frame", "C01", "frames of the boundary domain with their documented encoding")
    shards = 16 if c.tier == "thorough" else 4
    files, n, _ = vlib.record("C01", c.tier, c.seed, shards)
    c.validate("Trace_Codec", "Trace_Codec.cfg", files, ["record", "C01"], procs=PROCS)
    c.assumptions += ["TLC evaluates Frame.tla (Encode, Decode, ShapeOK, SumZero) as the oracle; the recorded values come from "
                      "Frame::new/to_bytes/to_bytes_with_newline/from_bytes/Data::try_new of the current tree",
                      "quick samples 2061 of the 65536 addresses (all byte-boundary values); thorough takes every address once"]
    return c.finish("model_checking",
                    "M: every frame of the boundary domain is a TLC state with the C01 invariants; G: each is replayed into the real codec "
                    "(owned and borrowed data); V: frames over the full domain (every type, every length 0..=255, every single byte value) "
                    "are encoded/decoded by the real code and each recorded result is checked by TLC; distinct = distinct frames")


# --------------------------------------------------------------------------- C02
def c02(c):
    r = c.mc("MC_Corrupt", mc_cfg("MC_Corrupt", c.tier), workers=12, timeout=3000, coverage=False)
    if c.tier == "thorough":
        n, ok, secs = vlib.run_tlapm("LRCDetect")
        log("[P] TLAPS LRCDetect: %d obligations, all proved=%s, %.1fs" % (n, ok, secs))
        if not ok:
            raise vlib.ToolError("the TLAPS proof spec/proofs/LRCDetect.tla does not check (a defect of the proof, not of the code)")
        c.details["tlaps"] = {"module": "spec/proofs/LRCDetect.tla", "obligations": n, "discharged": n,
                              "theorems": ["Substitution", "SwapInByte", "SwapAcrossBytes (any frame length: the damaged sum is not 0 mod 256)"]}
    shards = 16 if c.tier == "thorough" else 12
    files, n, _ = vlib.record("C02", c.tier, c.seed, shards)
    c.validate("Trace_Codec", "Trace_Codec.cfg", files, ["record", "C02"], procs=PROCS, timeout=3000)
    c.assumptions += ["damage model = the five classes named by the property, applied once to a valid encoding (with and without CRLF)",
                      "the real decoder's verdict on every damaged string is compared with Frame!Decode and with DamageSafe"]
    c.exhaustive = True
    return c.finish("model_checking",
                    "M: for every frame of a bounded domain TLC enumerates every damaged string and checks it decodes to an error or the original; "
                    "V: for sample frames (incl. 255-byte ones in thorough) the harness applies every position x every byte 0..=255 substitution, "
                    "every deletion, duplication, unequal adjacent swap and proper prefix to the real encoding, decodes with the real decoder, "
                    "and TLC checks each verdict; distinct = distinct damaged strings")


# --------------------------------------------------------------------------- C03
def c03(c):
    gen_and_replay(c, "MC_Decode", "C03", "byte strings (all short strings over the structural alphabet + prefix/body/suffix variations) with Decode's verdict")
    shards = 16 if c.tier == "thorough" else 6
    files, n, _ = vlib.record("C03", c.tier, c.seed, shards)
    c.validate("Trace_Codec", "Trace_Codec.cfg", files, ["record", "C03"], procs=PROCS, timeout=3000)
    c.assumptions += ["a panic of Frame::from_bytes is recorded as result kind 'panic', which equals no specification value"]
    return c.finish("model_checking",
                    "M: Decode is checked against the declarative Wellformed/consistency predicates on every enumerated string; G: each string with its "
                    "expected classification and fields is fed to Frame::from_bytes; V: random/mutated strings over all 256 byte values are decoded "
                    "by the real code and TLC checks result, error fields, precedence and re-encoding; distinct = distinct strings")


# --------------------------------------------------------------------------- C04
def c04(c):
    gen_and_replay(c, "MC_Message", "C04", "frames over all types x first bytes x lengths with the message the code table assigns")
    shards = 16 if c.tier == "thorough" else 6
    files, n, _ = vlib.record("C04", c.tier, c.seed, shards)
    c.validate("Trace_Codec", "Trace_Codec.cfg", files, ["record", "C04"], procs=PROCS, timeout=3000)
    c.assumptions += ["thorough covers all 65536 addresses for each of the 31 recognised codes; quick 219 addresses incl. byte boundaries"]
    return c.finish("model_checking",
                    "M: identity, table membership and address preservation as invariants over the frame domain; G: each frame/message pair is replayed "
                    "through Message::from and Frame::from; V: the real conversions are recorded for every recognised code over the address range, all "
                    "near misses (every type x every first byte at lengths 0/1/2) and random frames, each checked by TLC; distinct = distinct frames")


# --------------------------------------------------------------------------- C05
def c05(c):
    gen_and_replay(c, "MC_MsgWire", "C05", "specific messages with their wire encoding")
    shards = 16 if c.tier == "thorough" else 6
    files, n, _ = vlib.record("C05", c.tier, c.seed, shards)
    c.validate("Trace_Codec", "Trace_Codec.cfg", files, ["record", "C05"], procs=PROCS, timeout=3000)
    c.assumptions += ["injectivity on the real code follows from the per-message round trip (wire(m1)=wire(m2) implies m1=decode(wire)=m2); "
                      "on the model it is additionally checked as a cardinality assumption"]
    return c.finish("model_checking",
                    "M: round trip through the wire and pairwise-distinct wires over the bounded message set; G: each message replayed; V: every message "
                    "kind x addresses/offsets/counts across the 16-bit range x all 13 states x all 6 operations, SendData of every length 0..=255, "
                    "recorded from the real code and checked by TLC; distinct = distinct messages")


# --------------------------------------------------------------------------- C12 / C13 / C14
def vsign_graph(c, name, what, cfgs):
    """M+G on MC_VSign for each cfg (flip styles): model-check and replay the emitted state graph."""
    for cfg in cfgs:
        d = vlib.workdir(c.prop, "gen_" + cfg)
        path = os.path.join(d, "graph.ndjson")
        with open(path, "w") as sink:
            c.mc("MC_VSign", "MC_VSign_%s.cfg" % cfg, workers=10, timeout=3000, gen_tag="GEN", gen_sink=sink, coverage=False)
        c.replay_vectors(name, path, what + " [" + cfg + "]")
        os.remove(path)


def vsign_key(prefix):
    def key(ev, ctx):
        # canonical key of a rejected event: the message and the observed reply/state (not the whole history)
        import json
        return "%s:%s" % (prefix, json.dumps({"m": ev.get("m"), "r": ev.get("r"), "st": (ev.get("obs") or {}).get("st") if isinstance(ev.get("obs"), dict) else None}, sort_keys=True)[:400])
    return key


def c12(c):
    cfgs = ["thorough", "thorough_auto"] if c.tier == "thorough" else ["quick", "quick_auto"]
    vsign_graph(c, "C12", "every transition of the model's state graph delivered to a real VirtualSign under catch_unwind", cfgs)
    shards = 16 if c.tier == "thorough" else 8
    files, n, out = vlib.record("C12", c.tier, c.seed, shards)
    c.details["recorder"] = out.strip().splitlines()[0][:500]
    c.validate("Trace_Monitor", "Trace_Monitor_C12.cfg", files, ["record", "C12"], procs=PROCS, timeout=3000, key_fn=vsign_key("C12"))
    c.assumptions += ["a panic inside VirtualSign::process_message / VirtualSignBus::process_message is caught and recorded as reply kind 'Panic'; "
                      "the monitor rejects it", "harness is built with debug assertions and overflow checks on, like the repository's test profile",
                      "the 65536+5-chunk history (16-bit counter wrap) is only run in the thorough tier"]
    return c.finish("model_checking",
                    "M: VirtualSign!Step is total on every reachable model state (TLC evaluates every alphabet message in every state); G: each of those "
                    "transitions is delivered to a real sign; V: long random walks over the wide alphabet (every kind, own/foreign address, chunks of every "
                    "length, arbitrary configuration blocks, counts below/equal/above) on single signs and buses of 1..4 signs, plus directed lost/short/"
                    "extra/duplicated-chunk and wrong-count transfers for all 11 sign types, validated by the reference-free monitor "
                    "(no panic; a count announcement to a receiving sign ends in received/failed); distinct = delivered messages")


def c13(c):
    cfgs = ["thorough", "thorough_auto"] if c.tier == "thorough" else ["quick", "quick_auto"]
    vsign_graph(c, "C13", "model state graph {path, projection, every alphabet edge} replayed into a real VirtualSign", cfgs)
    if c.tier == "thorough":
        sign_abs_inductive(c)
    shards = 16 if c.tier == "thorough" else 8
    files, n, out = vlib.record("C13", c.tier, c.seed, shards)
    c.details["recorder"] = out.strip().splitlines()[0][:500]
    c.validate("Trace_VSign", "Trace_VSign.cfg", files, ["record", "C13"], procs=PROCS, timeout=3000, key_fn=vsign_key("C13"))
    c.assumptions += ["model bounds: buffered bytes, stored pages and chunk counter bounded per cfg (quick: 32 bytes / 1 page / 2; thorough: 48 / 2 / 4)",
                      "implementation-side BFS bounds: at most 3 (quick) / 4 (thorough) data chunks per transfer on a path, 1 / 2 stored pages",
                      "observation through state(), sign_type(), pages() and the replies only; pending bytes, counter, width, height are inferred by TLC"]
    return c.finish("model_checking",
                    "M: invariants (stored pages complete, buffer only while receiving, counter zero outside transfers) and the documented per-step "
                    "behaviour on every reachable state of the bounded model, both flip styles; every model step is a step of the size abstraction "
                    "SignAbs (refinement, TLC action property), whose invariants Apalache shows inductive for unbounded counters and lengths (thorough tier); "
                    "G: one implementation test per model transition; V: breadth-first search over the real implementation's own Hash/Eq state with every alphabet message probed at every node, plus "
                    "random walks and directed transfers on real sign sizes, every event validated by TLC against VirtualSign!Step; "
                    "distinct = model transitions + implementation transitions")


def c14(c):
    d = vlib.workdir(c.prop, "gen_bus")
    path = os.path.join(d, "graph.ndjson")
    with open(path, "w") as sink:
        c.mc("MC_Bus", "MC_Bus_%s.cfg" % c.tier, workers=10, timeout=3000, gen_tag="GEN", gen_sink=sink, coverage=False)
    c.replay_vectors("C14", path, "every state of the 2-sign model reached on a real VirtualSignBus; C14 relations checked for every alphabet message")
    os.remove(path)
    if c.tier == "thorough":
        # 3 signs, exhaustively (quick-tier alphabet and bounds: 151 221 distinct bus states), every state reached on a real 3-sign bus as well
        with open(path, "w") as sink:
            c.mc("MC_Bus", "MC_Bus_ex3.cfg", workers=10, timeout=3000, gen_tag="GEN", gen_sink=sink, coverage=False)
        c.replay_vectors("C14", path, "every state of the exhaustive 3-sign model reached on a real VirtualSignBus; C14 relations checked for every alphabet message")
        os.remove(path)
    # 3 and 4 signs: random simulation of the model (invariants Isolation/Inv on every visited state)
    sims = [("sim3", "num=300" if c.tier == "quick" else "num=5000", 60)]
    if c.tier == "thorough":
        sims.append(("sim4", "num=3000", 60))
    for cfg, num, depth in sims:
        r = vlib.run_mc(c.prop, "MC_Bus", "MC_Bus_%s.cfg" % cfg, "mc", workers=4, timeout=600, coverage=False, simulate=(num, depth))
        log("[M] MC_Bus/%s simulate %s depth %d: ok=%s, %.1fs" % (cfg, num, depth, r["ok"], r["wall"]))
        if r["rc"] not in (0, 124) or "Error:" in r["tail"]:
            log(r["tail"][-2000:])
            raise vlib.ToolError("simulation of MC_Bus/%s failed" % cfg)
        c.details.setdefault("model_runs", []).append({"module": "MC_Bus", "cfg": cfg, "mode": "simulate " + num, "depth": depth})
    shards = 16 if c.tier == "thorough" else 8
    files, n, out = vlib.record("C14", c.tier, c.seed, shards)
    c.details["recorder"] = out.strip().splitlines()[0][:500]
    c.validate("Trace_Monitor", "Trace_Monitor_C14.cfg", files, ["record", "C14"], procs=PROCS, timeout=3000, key_fn=vsign_key("C14"))
    c.assumptions += ["populations of 1..4 signs with distinct addresses (random and boundary addresses), mixed flip styles",
                      "the monitor is reference-free: it compares the bus's reply and per-sign projections with what a solo clone of each sign did"]
    return c.finish("model_checking",
                    "M: AddressedIsolation and UnaddressedOnlyReceiving for every alphabet message in every reachable state of the exhaustive 2-sign model "
                    "(both signs can be mid-transfer at once; thorough: also of the exhaustive 3-sign model) and in simulated 3- and 4-sign behaviours; G: the model's witness paths drive a real "
                    "VirtualSignBus into every model state, where every alphabet message is applied to the bus and to solo clones of its signs and the "
                    "C14 relations are checked on the observations; V: random interleavings on 1..4 real signs validated by the reference-free C14 "
                    "monitor in TLC (Trace_Monitor!Isolation); conformance of the values with the state machine is C13's business; distinct = bus transitions")


# --------------------------------------------------------------------------- C06 / C07 / C19
def c06(c):
    gen_and_replay(c, "MC_Page", "C06", "state graph of page images under set/clear/set-all/out-of-bounds, replayed on Page::new and on Page::from_bytes(&borrowed)",
                   workers=10, coverage=False)
    shards = 16 if c.tier == "thorough" else 6
    files, n, _ = vlib.record("C06", c.tier, c.seed, shards)
    c.validate("Trace_Page", "Trace_Page.cfg", files, ["record", "C06"], procs=PROCS, timeout=3000)
    c.assumptions += ["pixels are observed through get_pixel for every in-bounds coordinate after every operation; header = first 4 bytes, padding = bytes "
                      "beyond 4 + w*ceil(h/8); the unused high bits of a column are not constrained after set_all_pixels",
                      "model box: every width 0..6 x height in {0,1,2,3,7,8,9,12} with area <= 6 (quick) / 12 (thorough, plus 1x16 and 1x17)"]
    c.exhaustive = True
    return c.finish("model_checking",
                    "M: full reachability of byte images for every size of the box; the C06 relations (SetPixelRel, SetAllRel, out-of-bounds = panic and "
                    "unchanged) hold for every operation from every image; G: every model transition replayed on an owned and on a borrowed real page, "
                    "comparing result and projection; V: random operation sequences on the 11 real sizes, random sizes up to 40x33 (200x33 in thorough) and "
                    "zero-sized pages, owned and borrowed with arbitrary header/padding bytes, judged by the relations on observations; distinct = operations")


def c07(c):
    gen_and_replay(c, "MC_Layout", "C07", "expected fresh image, single-pixel images and from_bytes verdicts per size", workers=10, coverage=False)
    if c.tier == "thorough":
        n, ok, secs = vlib.run_tlapm("PixelIndex")
        log("[P] TLAPS PixelIndex: %d obligations, all proved=%s, %.1fs" % (n, ok, secs))
        if not ok:
            raise vlib.ToolError("the TLAPS proof spec/proofs/PixelIndex.tla does not check (a defect of the proof, not of the code)")
        nw, okw, secsw = vlib.run_tlapm("WideArith")
        log("[P] TLAPS WideArith: %d obligations, all proved=%s, %.1fs" % (nw, okw, secsw))
        if not okw:
            raise vlib.ToolError("the TLAPS proof spec/proofs/WideArith.tla does not check (a defect of the proof, not of the code)")
        c.details["tlaps"] = {"modules": ["spec/proofs/PixelIndex.tla", "spec/proofs/WideArith.tla"], "obligations": n + nw, "discharged": n + nw,
                              "theorems": ["Injective (distinct pixels never share a bit, all sizes)", "InDataArea", "Padding",
                                           "ChunksOK / IndexOK (the two-limb forms used on pages of 4 GiB and more equal the plain definitions, all sizes)"],
                              "bound_to_model_by": "MC_Layout!SameDefs (the proved definitions equal Page.tla's on every size of the box)"}
    shards = 16 if c.tier == "thorough" else 6
    files, n, _ = vlib.record("C07", c.tier, c.seed, shards)
    c.validate("Trace_Page", "Trace_Page.cfg", files, ["record", "C07"], procs=PROCS, timeout=3000)
    c.assumptions += ["model box: widths 0..12 (quick) / 0..64 (thorough) x heights 0..33, plus the 11 real sizes",
                      "raw bytes are compared: this property is the layout"]
    return c.finish("model_checking",
                    "M: shape of a new page, injectivity and range of the pixel index, LSB-on-top, from_bytes acceptance as invariants over every size of the "
                    "box; G: expected images replayed (all ids 0/0x7F/0x80/0xFF, every pixel, candidate lengths); V: all ids 0..=255 on small real sizes, "
                    "every size 0..48 x 0..33 in thorough, large sizes (1000x16, 255x255, 4096x8, 65532x1), recorded from the real code and checked by TLC "
                    "against the layout formulae; distinct = pages, pixels and candidate lengths")


def c19(c):
    c.mc("MC_SignType", mc_cfg("MC_SignType", c.tier), workers=8, timeout=1800, coverage=False)
    shards = 16 if c.tier == "thorough" else 2
    files, n, _ = vlib.record("C19", c.tier, c.seed, shards)
    c.validate("Trace_C19", "Trace_C19.cfg", files, ["record", "C19"], procs=PROCS, timeout=3000)
    c.assumptions += ["the set of supported (family, id) pairs is built from the blocks the real code reports for its 11 types",
                      "thorough covers all 65536 (family, id) pairs; quick both real families x 256 ids, 256 families x 3 ids and 2000 random pairs"]
    return c.finish("model_checking",
                    "M: the documented table is self-consistent (field relations, decode-back, virtual-sign derivation) and TypeFromBytes is total with the "
                    "length and acceptance rules over all (family, id) pairs and lengths 0..40; V: for each of the 11 real types the real block, dimensions, "
                    "decode-back and what a real VirtualSign configured with the block stores are checked by relations in TLC; (family, id) pairs with "
                    "the other 14 bytes varied and byte strings of every length 0..=40 are decoded by the real code under catch_unwind and judged; "
                    "distinct = blocks decoded")


# --------------------------------------------------------------------------- C15 / C16 / C18 / C20
def c15(c):
    c.mc("MC_Stream", mc_cfg("MC_Stream", c.tier), workers=8, timeout=1800, coverage=(c.tier == "quick"))
    shards = 16 if c.tier == "thorough" else 8
    files, n, _ = vlib.record("C15", c.tier, c.seed, shards)
    c.validate("Trace_Stream", "Trace_Stream.cfg", files, ["record", "C15"], procs=PROCS, timeout=3000)
    c.assumptions += ["the instrumented Read hands out as many bytes as the caller asks for, up to the schedule's fragment limit (1, 2, 3, .., unlimited), "
                      "so a reader that buffers ahead is seen to consume beyond the line feed",
                      "schedules: every placement of up to two interrupts, a hard error at every call index, sinks accepting 1..k bytes per call, Ok(0) and "
                      "hard errors at every call; exhaustive for the short streams, random for streams of up to 20 frames"]
    c.exhaustive = True
    return c.finish("model_checking",
                    "M: the reader/writer contract under every schedule of the bounded model (never past the first line feed, result = Decode(line), frames in "
                    "order, trailing bytes stay, everything delivered or a proper prefix with an I/O error); V: Frame::read / Frame::write run on instrumented "
                    "streams under exhaustively enumerated and random schedules; every read()/write() call and every result is validated by TLC against "
                    "Stream.tla; distinct = I/O calls")


def c16(c):
    c.mc("MC_Serial", mc_cfg("MC_Serial", c.tier), workers=8, timeout=1800, coverage=False)
    shards = 16 if c.tier == "thorough" else 8
    files, n, _ = vlib.record("C16", c.tier, c.seed, shards)
    c.validate("Trace_Serial", "Trace_Serial.cfg", files, ["record", "C16"], procs=PROCS, timeout=3000)
    c.assumptions += ["the receive side holds the reply line followed by a second valid line, so an extra read or over-read is visible",
                      "an empty receive side makes read() fail with TimedOut, as a real serial port does"]
    return c.finish("model_checking",
                    "M: SerialBus!PM over every message kind x reply tape (all states, all acks, unknown, malformed, empty): one frame out, a read iff a reply "
                    "is due, exactly one line in, never an invented or dropped reply; V: SerialSignBus over an instrumented SerialPort for all kinds with "
                    "parameters across their ranges (SendData of every length in thorough), 39 reply tapes, and a failure injected at each port operation; "
                    "every port call and result validated by TLC; distinct = process_message calls")


def c18(c):
    c.mc("MC_Serial", mc_cfg("MC_Serial", c.tier), workers=8, timeout=1800, coverage=False)
    files, n, _ = vlib.record("C18", c.tier, c.seed, 1)
    c.validate("Trace_Pacing", "Trace_Pacing.cfg", files, ["record", "C18"], procs=1, timeout=1800)
    c.assumptions += ["time is measured with std::time::Instant at the start and end of every port write/read and at process_message return",
                      "lower bounds are asserted on every paced exchange; for unpaced kinds only the minimum over repeated trials must stay below the delay, "
                      "so scheduler noise cannot cause an alarm", "some replies are delivered 60 / 130 ms late so that the pause is seen to count from receipt"]
    return c.finish("other",
                    "M: on the model the only sleeps are 30 ms after a data chunk and 100 ms after an in-progress report (logical clock); V: a real "
                    "SerialSignBus sends every message kind repeatedly (data chunks of length 0, 1, 16, 255), with every state and every acknowledgement as "
                    "replies; the timed trace spec checks both lower bounds on every paced exchange and that the per-kind minimum of every other exchange is "
                    "below the pacing delay; distinct = timed exchanges")


def c20(c):
    c.mc("MC_Serial", mc_cfg("MC_Serial", c.tier), workers=8, timeout=1800, coverage=False)
    shards = 16 if c.tier == "thorough" else 6
    files, n, _ = vlib.record("C20", c.tier, c.seed, shards)
    c.validate("Trace_Serial", "Trace_Serial.cfg", files, ["record", "C20"], procs=PROCS, timeout=3000)
    c.assumptions += ["the instrumented SerialDevice has its own Settings type; its state follows the calls actually made; set_baud_rate, read_settings, "
                      "write_settings and set_timeout can each be made to fail",
                      "effects are constrained (final device state, error propagation), not the order or number of device calls",
                      "quick rotates the three constructors over the 936 x 5 product; thorough runs all three on every element"]
    c.exhaustive = True
    return c.finish("model_checking",
                    "M: PortSetup over all 936 prior settings x 5 failure points; V: configure_port (caller's timeout), SerialSignBus::try_new and "
                    "Odk::try_new on the same product over an instrumented device; TLC checks: Ok => 19200 8N1 no flow control and a timeout applied "
                    "(the caller's value when direct); any refused call => Err; distinct = set-ups")


def c17(c):
    c.mc("MC_Serial", mc_cfg("MC_Serial", c.tier), workers=8, timeout=1800, coverage=False)
    shards = 8 if c.tier == "thorough" else 2
    files, n, _ = vlib.record("C17", c.tier, c.seed, shards)
    c.validate("Trace_Twin", "Trace_Twin.cfg", files, ["record", "C17"], procs=PROCS, timeout=3000)
    c.assumptions += ["single-threaded duplex port pair: whenever the controller side has written a complete line the bridge is pumped, so the run is deterministic",
                      "sign types whose page fits 5 chunks (the serial path really sleeps 30 ms per chunk); 1..2 signs, both flip styles, addresses {3,0,0xFFFF,0x100,random}",
                      "failure classes may differ between the twins (a missing reply is 'no reply' directly and a read time-out on the wire); success, "
                      "successful outcomes and the signs' state/type/pages must agree"]
    return c.finish("model_checking",
                    "M: on the model the composition Controller o SerialBus o wire o Odk o Bus gives, call by call over a 9-call scenario on two bus "
                    "populations, the same success, outcome and sign projections as Controller o Bus (MC_Serial!TwinOK, built from Frame/Message/"
                    "VirtualSign/Controller); V: the real Sign drives real virtual signs directly and through SerialSignBus + Odk over an in-process "
                    "duplex port; configure / send / show / load-next / shut-down / re-configure sequences, calls that must fail, and raw unknown and "
                    "invalid lines injected at the bridge; TLC checks twin equality per call and the bridge rule per Odk::process_message call; "
                    "distinct = controller calls and bridged lines")


# --------------------------------------------------------------------------- C08
def c08(c):
    cfgs = ["thorough", "thorough_auto", "thorough_tiny"] if c.tier == "thorough" else ["quick", "quick_auto"]
    for cfg in cfgs:
        c.mc("MC_System", "MC_System_%s.cfg" % cfg, workers=10, timeout=3000, coverage=(c.tier == "quick"))
    # prior states: one witness path per distinct state of the virtual-sign model (both flip styles)
    graphs = []
    for cfg in (["quick", "quick_auto"] if c.tier == "quick" else ["thorough", "thorough_auto"]):
        d = vlib.workdir(c.prop, "gen_" + cfg)
        path = os.path.join(d, "graph.ndjson")
        with open(path, "w") as sink:
            if c.tier == "quick":
                c.mc("MC_VSign", "MC_VSign_%s.cfg" % cfg, workers=10, timeout=3000, gen_tag="GEN", gen_sink=sink, coverage=False)
            else:
                c.mc("MC_VSign", "MC_VSign_%s.cfg" % cfg.replace("thorough", "c08"), workers=10, timeout=3000, gen_tag="GEN", gen_sink=sink, coverage=False)
        graphs.append(path)
    shards = 48 if c.tier == "thorough" else 8    # thorough writes about 6.5 GiB of events: shards of ~140 MB fit a 3 GB TLC heap
    files, n, out = vlib.record("C08", c.tier, c.seed, shards, extra=graphs)
    for g in graphs:
        os.remove(g)
    c.details["recorder"] = out.strip().splitlines()[0][:500]
    c.validate("Trace_C08", "Trace_C08.cfg", files, ["record", "C08"], procs=PROCS, timeout=3000, key_fn=ctl_key("C08"))
    c.assumptions += ["the virtual sign is the system under control; prior states are (a) every distinct state of the bounded virtual-sign model, reached on a "
                      "real VirtualSign by TLC's witness path, and (b) states reached by random walks over the wide alphabet on real sizes",
                      "configure-if-needed is only called when the sign is not in a ready-to-receive state or records the same type (its contract)",
                      "all 11 sign types, both flip styles, addresses {3,0,1,0x7F,0xFF,0x100,0xFFFF,0x1234,random}, page lists of 0..4 pages with random pixels"]
    return c.finish("model_checking",
                    "M: Controller o Bus composed in TLA+; from every state a chaos phase can drive the sign into (bounded), configure / configure-if-needed and "
                    "then bounded sequences of send-pages, show, load-next and re-configure are run exchange by exchange and the C08 postconditions are "
                    "invariants at every return; G->V: TLC's witness paths put a real VirtualSign into each model state, the real Sign then runs a program of "
                    "calls on it, and TLC evaluates the same postconditions (System!Post*) on the recorded outcomes and projections; "
                    "distinct = controller calls")


# --------------------------------------------------------------------------- C09 / C10 / C11
def ctl_cfgs(tier):
    base = ["configure", "configure_b", "configure_c", "send_pages", "show", "load", "shut_down"]
    return base + (["cin_full"] if tier == "thorough" else ["cin_small"])


def ctl_scripts(c, cfgs, emit_to=None):
    """M (+G emission): run MC_Ctl for each cfg; returns the path of the concatenated script file."""
    d = vlib.workdir(c.prop, "gen_ctl")
    path = os.path.join(d, "scripts.ndjson")
    with open(path, "w") as sink:
        for cfg in cfgs:
            c.mc("MC_Ctl", "MC_Ctl_%s.cfg" % cfg, workers=10, timeout=3000, gen_tag="GEN", gen_sink=sink, coverage=(c.tier == "quick" and cfg in ("show", "send_pages")))
    return path


def record_from_scripts(c, path, name, shards):
    d = vlib.workdir(c.prop, "traces_scripts")
    out = vlib.fdv(["record", "CTLSCRIPTS", path, name, "--out", d, "--shards", str(shards)])
    files = sorted(os.path.join(d, f) for f in os.listdir(d) if f.endswith(".ndjson"))
    return files


def ctl_key(prefix):
    def key(ev, ctx):
        import json
        call = None
        for e in reversed(ctx):
            if e.get("e") == "call":
                call = {"name": e.get("name"), "me": e.get("me")}
                break
        return "%s:%s" % (prefix, json.dumps({"call": call, "event": {k: ev.get(k) for k in ("e", "m", "r", "out")}}, sort_keys=True)[:500])
    return key


def c10(c):
    path = ctl_scripts(c, ctl_cfgs(c.tier))
    c.replay_vectors("CTL", path, "every reply script of the bounded model fed to the real Sign (message by message, outcome)")
    os.remove(path)
    shards = 16 if c.tier == "thorough" else 8
    files, n, out = vlib.record("C10", c.tier, c.seed, shards)
    c.details["recorder"] = out.strip().splitlines()[0][:500]
    c.validate("Trace_Ctl", "Trace_Ctl.cfg", files, ["record", "C10"], procs=PROCS, timeout=3000, key_fn=ctl_key("C10"))
    c.assumptions += ["reply alphabet of the exhaustive enumeration: 13 states x own/foreign, 6 acks x own/foreign, none, goodbye, unknown frame, bus error "
                      "(configure-if-needed in quick: a 15-value sub-alphabet); polling bounded to 4 state queries per show/load call",
                      "random adversarial conversations use a richer alphabet (SendData/DataChunksSent/Hello/requests as replies, near-miss addresses)"]
    c.exhaustive = True
    return c.finish("model_checking",
                    "M+G: TLC enumerates every reply script to the natural end of configure (3 sign types/addresses), configure-if-needed, send-pages, "
                    "show, load-next and shut-down; each complete script {messages, replies, outcome} is replayed against the real Sign through a scripted "
                    "SignBus and compared message by message and on the outcome class; V: random adversarial and cooperative conversations of the real Sign "
                    "are validated by TLC against Controller!CMsg/Recv; distinct = complete conversations")


def c11(c):
    path = ctl_scripts(c, ctl_cfgs(c.tier))
    files = record_from_scripts(c, path, "C11S", 16 if c.tier == "thorough" else 10)
    os.remove(path)
    c.validate("Trace_CtlMon", "Trace_CtlMon_C11.cfg", files, ["record", "CTLSCRIPTS"], procs=PROCS, timeout=3000, key_fn=ctl_key("C11"))
    shards = 16 if c.tier == "thorough" else 8
    files2, n, out = vlib.record("C11", c.tier, c.seed, shards)
    c.details["recorder"] = out.strip().splitlines()[0][:500]
    c.validate("Trace_CtlMon", "Trace_CtlMon_C11.cfg", files2, ["record", "C11"], procs=PROCS, timeout=3000, key_fn=ctl_key("C11"))
    c.assumptions += ["the monitor derives 'which replies are allowed at this point' from the recorded conversation alone (previous message, call name, attempt number)",
                      "a script that runs out of replies is continued with bus errors (a legitimate environment)"]
    c.exhaustive = True
    return c.finish("model_checking",
                    "M: the C11 predicates (no unconfirmed success, fail-stop, at most three attempts, retry only after the own failed report, own address "
                    "only, foreign replies never treated as own) are TLC invariants on every prefix of every reply script of the bounded model; "
                    "G->V: every one of those scripts drives the real Sign and the conversation that actually took place is checked by the same "
                    "predicates in TLC (reference-free monitor); V: random adversarial conversations likewise; distinct = conversations")


def c09(c):
    cfgs = ["configure", "configure_b", "configure_c", "send_pages", "send_pages_model"] + (["cin_full"] if c.tier == "thorough" else [])
    path = ctl_scripts(c, cfgs)
    files = record_from_scripts(c, path, "C09S", 16 if c.tier == "thorough" else 10)
    os.remove(path)
    c.validate("Trace_CtlMon", "Trace_CtlMon_C09.cfg", files, ["record", "CTLSCRIPTS"], procs=PROCS, timeout=3000, key_fn=ctl_key("C09"))
    shards = 16 if c.tier == "thorough" else 8
    files2, n, out = vlib.record("C09", c.tier, c.seed, shards)
    c.details["recorder"] = out.strip().splitlines()[0][:500]
    c.validate("Trace_CtlMon", "Trace_CtlMon_C09.cfg", files2, ["record", "C09"], procs=PROCS, timeout=3000, key_fn=ctl_key("C09"))
    c.assumptions += ["fewer than 65536 chunks per transfer (the 16-bit count field); pages up to 65536 bytes (the 16-bit offset limit)",
                      "the items of a call are taken from the real API (SignType::to_bytes of the controller's type, Page::as_bytes of each page)"]
    return c.finish("model_checking",
                    "M: the transfer monitor (ack first; per item consecutive chunks of <= 16 bytes at offsets 0,16,32,.. whose concatenation is the item; "
                    "count = chunks since the request; result asked only afterwards; every retry repeats the whole sequence) is an invariant on every reply "
                    "script of the bounded model, including ragged and empty items; G->V and V: TLC's scripts and cooperative-or-failing buses (0..3 failure "
                    "reports) drive the real Sign with all 11 configurations and page lists of arbitrary dimensions from one chunk to 65536 bytes; "
                    "the recorded conversations are checked by the same monitor in TLC; distinct = conversations")


# --------------------------------------------------------------------------- beyond the listed properties
def sign_abs_inductive(c):
    """SignAbs (the size abstraction that VirtualSign refines: MC_VSign!AbsRefines) has an inductive invariant: Apalache, unbounded."""
    a, s1 = vlib.run_apalache(c.prop, "SignAbs", "Init", "IndInv", 0)
    b, s2 = vlib.run_apalache(c.prop, "SignAbs", "IndInit", "IndInv", 1)
    w, s3 = vlib.run_apalache(c.prop, "SignAbs", "WeakInv", "WeakInv", 1)
    log("[A] Apalache SignAbs: Init => IndInv %s (%.0fs); IndInv /\\ Next => IndInv' %s (%.0fs); control (weakened invariant is not inductive): %s (%.0fs)"
        % (a, s1, b, s2, w, s3))
    if a != "ok" or b != "ok" or w != "violated":
        raise vlib.ToolError("Apalache: the inductive invariant of SignAbs does not check as documented")
    c.details["apalache"] = {"module": "SignAbs", "inductive_invariant": "IndInv", "base": a, "step": b, "control_weakened_invariant": w}


def extra(c):
    """Specification growth beyond the 20 properties: Display formats (trace validation), termination of controller calls
    under weak fairness (liveness, TLC), and the TLAPS proof about the page layout."""
    files, n, _ = vlib.record("EXTRA", c.tier, c.seed, 2, name="DISPLAY")
    c.validate("Trace_Display", "Trace_Display.cfg", files, ["record", "DISPLAY"], procs=2, timeout=900)
    files, n, _ = vlib.record("EXTRA", c.tier, c.seed, 2, name="API")
    c.validate("Trace_Api", "Trace_Api.cfg", files, ["record", "API"], procs=2, timeout=900)
    r = vlib.run_mc("EXTRA", "MC_Live", "MC_Live_quick.cfg", "mc", workers=4, timeout=900, coverage=False)
    log("[M] MC_Live (every started controller call terminates, WF on exchanges): %d distinct states, ok=%s" % (r["distinct"], r["ok"]))
    if not r["ok"]:
        log(r["tail"][-2000:])
        raise vlib.ToolError("liveness check failed on the model")
    c.states += r["distinct"]
    c.transitions += r["states"]
    # two controllers on one bus: safe when a transfer holds the bus, unsafe (expected counterexample) when exchanges interleave freely
    r1 = vlib.run_mc("EXTRA", "MC_Multi", "MC_Multi_transfer.cfg", "mc", workers=4, timeout=600, coverage=False)
    r2 = vlib.run_mc("EXTRA", "MC_Multi", "MC_Multi_free.cfg", "mc", workers=1, timeout=600, coverage=False)
    cex = bool(r2.get("violated")) and "Post" in r2["violated"]
    log("[M] MC_Multi: bus held per transfer: ok=%s (%d states); free interleaving: counterexample found=%s (expected: the protocol's data "
        "chunks carry no address)" % (r1["ok"], r1["distinct"], cex))
    if not r1["ok"] or not cex:
        raise vlib.ToolError("MC_Multi did not behave as documented")
    c.details["multi_controller"] = {"policy_transfer_ok": True, "policy_free_counterexample": True}
    n, ok, secs = vlib.run_tlapm("PixelIndex")
    log("[P] TLAPS PixelIndex: %d obligations, all proved=%s, %.1fs" % (n, ok, secs))
    n2, ok2, secs2 = vlib.run_tlapm("LRCDetect")
    log("[P] TLAPS LRCDetect: %d obligations, all proved=%s, %.1fs" % (n2, ok2, secs2))
    n3, ok3, secs3 = vlib.run_tlapm("WideArith")
    log("[P] TLAPS WideArith: %d obligations, all proved=%s, %.1fs" % (n3, ok3, secs3))
    if not ok or not ok2 or not ok3:
        raise vlib.ToolError("TLAPS proof does not check")
    c.details["tlaps"] = {"obligations": n + n2 + n3, "discharged": n + n2 + n3}
    sign_abs_inductive(c)
    return c.finish("model_checking", "extras: two controllers sharing a bus; Display formats of frames/messages/pages validated against Display.tla; liveness of controller calls; TLAPS layout proof")


CHECKS = {"EXTRA": extra, "C17": c17, "C15": c15, "C16": c16, "C18": c18, "C20": c20, "C06": c06, "C07": c07, "C19": c19, "C08": c08, "C09": c09, "C10": c10, "C11": c11, "C12": c12, "C13": c13, "C14": c14, "C01": c01, "C02": c02, "C03": c03, "C04": c04, "C05": c05}
