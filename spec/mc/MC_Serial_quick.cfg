SPECIFICATION Spec
CONSTANTS
  Thorough = FALSE
INVARIANTS OneFrameOut ReadsIffDue OneLineIn NeverInvented Pacing SetupRule
CHECK_DEADLOCK FALSE
