----------------------------- MODULE MC_System ------------------------------
(* C08 on the model: phase "chaos" drives one virtual sign with arbitrary   *)
(* traffic (the MC_VSign alphabet); at any point the controller takes over  *)
(* (phase "ctl") and runs configure or configure-if-needed, then a bounded  *)
(* sequence of send-pages / show / load-next / re-configure calls, one      *)
(* exchange per step.  The C08 postconditions are checked at every return.  *)
EXTENDS MC_VSign, System

CONSTANTS CtlType,     \* "tiny" (8x8 custom, 1 chunk per page) or a SignType name
          MaxCalls

CtlBlock == IF CtlType = "tiny" THEN CfgTiny ELSE Block(CtlType)
CtlW == BlockWidth(CtlBlock)
CtlH == BlockHeight(CtlBlock)
CtlTypName == TypOf(CtlBlock)

PageBytes(id, fill) == [k \in 1..TotalBytes(CtlW, CtlH) |-> IF k = 1 THEN id ELSE IF k = 2 THEN 16 ELSE IF k <= 4 THEN 0
                                                           ELSE IF k <= DataBytes(CtlW, CtlH) THEN (fill + k) % 256 ELSE 255]
P1 == PageBytes(1, 7)
P2 == PageBytes(2, 100)
PageListsS == {<<>>, <<P1>>, <<P2, P1>>}

VARIABLES phase, c, ncalls, before
svars == <<s, hist, phase, c, ncalls, before>>
SView == <<s, phase, c, ncalls, before>>

IdleC == [pc |-> "idle", out |-> "idle", call |-> "", items |-> <<>>]

SInit == Init /\ phase = "chaos" /\ c = IdleC /\ ncalls = 0 /\ before = SignObs(s)

Chaos == phase = "chaos" /\ Next /\ UNCHANGED <<phase, c, ncalls, before>>

StartCall(name, items) ==
    /\ c' = Call(A, name, items) /\ before' = SignObs(s) /\ ncalls' = ncalls + 1
    /\ UNCHANGED <<s, hist>>

TakeOver ==
    /\ phase = "chaos" /\ phase' = "ctl"
    /\ \/ StartCall("configure", <<CtlBlock>>)
       \/ CinApplicable(SignObs(s), CtlTypName) /\ StartCall("configure_if_needed", <<CtlBlock>>)

Exchange ==
    /\ phase = "ctl" /\ c.pc # "idle" /\ Running(c)
    /\ LET y == SysStep(c, <<s>>) IN c' = y.c /\ s' = y.signs[1]
    /\ UNCHANGED <<hist, phase, ncalls, before>>

NextCall ==
    /\ phase = "ctl" /\ ~Running(c) /\ ncalls < MaxCalls
    /\ \/ \E ps \in PageListsS : StartCall("send_pages", ps)
       \/ (c.call # "configure" /\ c.call # "configure_if_needed") /\ StartCall("show", <<>>)
       \/ (c.call # "configure" /\ c.call # "configure_if_needed") /\ StartCall("load", <<>>)
       \/ c.call = "send_pages" /\ StartCall("configure", <<CtlBlock>>)
       \/ c.call \in {"show", "load"} /\ StartCall("configure_if_needed", <<CtlBlock>>)
    /\ UNCHANGED phase

SNext == Chaos \/ TakeOver \/ Exchange \/ NextCall
SSpec == SInit /\ [][SNext]_svars

\* C08: at every return of a call
Post ==
    (phase = "ctl" /\ c.pc = "done") =>
        LET after == SignObs(s) IN
        CASE c.call = "configure" -> PostConfigure(c.out, after, CtlTypName)
          [] c.call = "configure_if_needed" -> PostCin(c.out, before, after, CtlTypName)
          [] c.call = "send_pages" -> PostSendPages(c.out, after, Flip, c.items, CtlW, CtlH)
          [] c.call \in {"show", "load"} -> PostSwitch(c.call, c.out, before, after, Flip)
\* calls terminate within a bounded number of exchanges from every prior state (no protocol dead end)
NoRunaway == TRUE
SInv == Inv
=============================================================================
