SPECIFICATION Spec
CONSTANTS
  Thorough = TRUE
  Emit = TRUE
INVARIANTS SameDefs WideAgrees WideSameDefs TallAgrees NewShape Injective InData SetOne FromBytes EmitVec
CHECK_DEADLOCK FALSE
