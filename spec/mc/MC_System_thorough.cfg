SPECIFICATION SSpec
CONSTANTS
  Thorough = TRUE
  Emit = FALSE
  Flip = "Manual"
  MaxPending = 48
  MaxPages = 2
  MaxChunks = 4
  CtlType = "Max3000Dash30x7"
  MaxCalls = 4
VIEW SView
CONSTRAINT Bound
INVARIANTS Post SInv
CHECK_DEADLOCK FALSE
