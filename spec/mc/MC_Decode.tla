----------------------------- MODULE MC_Decode ------------------------------
(* C03 on the model: Decode is total and strict over (i) all short strings  *)
(* over the structural alphabet and (ii) prefix x body x suffix variations  *)
(* of valid encodings; it accepts exactly the well-formed, consistent       *)
(* strings, classifies errors in the documented precedence, and re-encoding *)
(* reproduces the text up to case and terminator.  Emits {s, res} vectors.  *)
EXTENDS Frame, TLC, Json

CONSTANTS Thorough, Emit

\* ':' '0' '9' 'A' 'F' 'a' 'f' 'G' CR LF NUL 0xFF
Sigma == {58, 48, 57, 65, 70, 97, 102, 71, 13, 10, 0, 255}
MaxShort == IF Thorough THEN 4 ELSE 3
ShortStrings == UNION { [1..n -> Sigma] : n \in 0..MaxShort }

Lower(s) == [i \in 1..Len(s) |-> IF s[i] \in 65..70 THEN s[i] + 32 ELSE s[i]]
Mixed(s) == [i \in 1..Len(s) |-> IF s[i] \in 65..70 /\ i % 3 = 0 THEN s[i] + 32 ELSE s[i]]

SmallFrames ==
    { MkFrame(a, t, d) : a \in (IF Thorough THEN {0, 171, 65535} ELSE {171}),
                          t \in (IF Thorough THEN {0, 4, 255} ELSE {4}),
                          d \in {<<>>, <<15>>, <<171, 205>>, <<0, 255, 16>>} }

\* single structural damages of a valid body
Damaged(b) == {b} \cup { Delete(b, i) : i \in {1, 2, Len(b)} }
                  \cup { Subst(b, i, c) : i \in {1, 2, 3, 9, Len(b) - 1, Len(b)}, c \in {71, 58, 48, 102} }
                  \cup { Dup(b, i) : i \in {1, 2, Len(b)} }
                  \cup { b \o <<48, 48>>, b \o <<48>> }

Bodies == UNION { UNION { Damaged(v) : v \in {Encode(fr), Lower(Encode(fr)), Mixed(Encode(fr))} } : fr \in SmallFrames }
Pres == {<<>>, <<58>>, <<48>>, <<13>>, <<10>>, <<0>>, <<255>>, <<58, 48, 48>>}
Sufs == {<<>>, <<13, 10>>, <<10>>, <<13>>, <<13, 10, 13, 10>>, <<13, 10, 58>>, <<10, 13>>, <<0>>, <<255>>, <<48>>}
Structured == { p \o b \o x : p \in Pres, b \in Bodies, x \in Sufs }

VARIABLE s
Init == s \in ShortStrings \cup Structured
Next == UNCHANGED s
Spec == Init /\ [][Next]_s

r == Decode(s)

Total == r.kind \in {"ok", "invalid", "mismatch", "badsum"}
InvalidIffMalformed == (r.kind = "invalid") = ~Wellformed(s)

\* independent statement of the fields for well-formed text
Consistent ==
    Wellformed(s) =>
        LET t == StripNL(s)
            nb == (Len(t) - 1) \div 2
            B(i) == PairVal(t[2 * i], t[2 * i + 1])
            bytes == [i \in 1..(nb - 1) |-> B(i)]
        IN  /\ (r.kind = "mismatch") = (B(1) # nb - 5)
            /\ (r.kind = "mismatch" => r.expected = B(1) /\ r.actual = nb - 5)
            /\ (r.kind = "badsum") = (B(1) = nb - 5 /\ (SumSeq(bytes) + B(nb)) % 256 # 0)
            /\ (r.kind = "badsum" => r.expected = B(nb) /\ (SumSeq(bytes) + r.actual) % 256 = 0)
            /\ (r.kind = "ok") = (B(1) = nb - 5 /\ (SumSeq(bytes) + B(nb)) % 256 = 0)

ReEncode == r.kind = "ok" => Encode(FrameOf(r)) = Upper(StripNL(s))
EmitVec == Emit => PrintT(<<"GEN", ToJson([s |-> s, res |-> r])>>)
=============================================================================
