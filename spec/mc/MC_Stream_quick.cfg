SPECIFICATION Spec
CONSTANTS
  Thorough = FALSE
INVARIANTS NeverPastLF AtReturn WriteOK
CHECK_DEADLOCK FALSE
