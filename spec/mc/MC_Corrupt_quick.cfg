SPECIFICATION Spec
CONSTANTS
  Thorough = FALSE
INVARIANTS AllDamageDetected AcceptedOnlyIfConsistent CountEmit
CHECK_DEADLOCK FALSE
