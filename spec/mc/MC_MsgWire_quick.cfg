SPECIFICATION Spec
CONSTANTS
  Thorough = FALSE
  Emit = TRUE
INVARIANTS RoundTrip RoundTripNL DecodesOk EmitVec
CHECK_DEADLOCK FALSE
