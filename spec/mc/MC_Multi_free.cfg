SPECIFICATION Spec
CONSTANTS
  Policy = "free"
INVARIANT Post
CHECK_DEADLOCK FALSE
