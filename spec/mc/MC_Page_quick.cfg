SPECIFICATION Spec
CONSTANTS
  Thorough = FALSE
  Emit = TRUE
VIEW View
INVARIANTS FrameInv OpsOK EmitState
CHECK_DEADLOCK FALSE
