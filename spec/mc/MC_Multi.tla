------------------------------ MODULE MC_Multi ------------------------------
(* Beyond the listed properties: two controllers (one per sign) sharing one  *)
(* bus, interleaved at the granularity of one message exchange.              *)
(*                                                                           *)
(* Question: does each controller still get the C08 postconditions?          *)
(*   Policy = "free"     any interleaving of exchanges.  TLC finds a         *)
(*                       counterexample: data chunks and chunk counts carry  *)
(*                       no address, so two transfers that overlap corrupt   *)
(*                       each other (a property of the protocol, which the   *)
(*                       library inherits: one transfer at a time per bus).  *)
(*   Policy = "transfer" a controller keeps the bus from its receive request *)
(*                       until the result query has been answered.  Then the *)
(*                       postconditions hold for every interleaving.         *)
EXTENDS System, TLC

CONSTANTS Policy

A1 == 3
A2 == 4
CfgTiny == <<4, 1, 0, 0, 8, 8, 0, 0, 0, 8, 0, 0, 0, 0, 0, 0>>
PgA == <<1, 16, 0, 0, 1, 2, 3, 4, 5, 6, 7, 8, 255, 255, 255, 255>>
PgB == <<2, 16, 0, 0, 8, 7, 6, 5, 4, 3, 2, 1, 255, 255, 255, 255>>

Prog(me, pg) == << Call(me, "configure", <<CfgTiny>>), Call(me, "send_pages", <<pg, pg>>), Call(me, "show", <<>>) >>
Progs == << Prog(A1, PgA), Prog(A2, PgB) >>
Flips == <<"Manual", "Automatic">>

VARIABLES signs, c, k, before, holder
\* c[i]: controller i's call state; k[i]: index of its current call; holder: who may use the bus (0 = anybody)
vars == <<signs, c, k, before, holder>>

Init == /\ signs = <<NewSign(A1, Flips[1]), NewSign(A2, Flips[2])>>
        /\ c = [i \in 1..2 |-> Progs[i][1]]
        /\ k = [i \in 1..2 |-> 1]
        /\ before = [i \in 1..2 |-> SignObs(signs[i])]
        /\ holder = 0

InTransfer(ci) == ci.pc \in {"xfer_chunk", "xfer_count", "xfer_query"}

Exchange(i) ==
    /\ Running(c[i])
    /\ (Policy = "transfer" => holder \in {0, i})
    /\ LET y == SysStep(c[i], signs) IN
        /\ c' = [c EXCEPT ![i] = y.c]
        /\ signs' = y.signs
        /\ holder' = IF Policy = "transfer" /\ InTransfer(y.c) THEN i ELSE IF holder = i THEN 0 ELSE holder
    /\ UNCHANGED <<k, before>>

NextCall(i) ==
    /\ ~Running(c[i]) /\ k[i] < Len(Progs[i])
    /\ k' = [k EXCEPT ![i] = @ + 1]
    /\ c' = [c EXCEPT ![i] = Progs[i][k[i] + 1]]
    /\ before' = [before EXCEPT ![i] = SignObs(signs[i])]
    /\ UNCHANGED <<signs, holder>>

Next == \E i \in 1..2 : Exchange(i) \/ NextCall(i)
Spec == Init /\ [][Next]_vars

\* the C08 postconditions for each controller at the return of each of its calls
Post ==
    \A i \in 1..2 :
        c[i].pc = "done" =>
            LET after == SignObs(signs[i]) IN
            CASE c[i].call = "configure" -> PostConfigure(c[i].out, after, "None")
              [] c[i].call = "send_pages" -> PostSendPages(c[i].out, after, Flips[i], c[i].items, 8, 8)
              [] c[i].call = "show" -> c[i].out = "Ok"
=============================================================================
