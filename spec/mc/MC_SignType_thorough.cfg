SPECIFICATION Spec
CONSTANTS
  Thorough = TRUE
INVARIANTS Total LengthRule AcceptRule
CHECK_DEADLOCK FALSE
