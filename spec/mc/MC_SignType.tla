---------------------------- MODULE MC_SignType -----------------------------
(* C19 on the model: the documented table is self-consistent, decoding is   *)
(* total, and what the virtual sign derives from a block equals the type's  *)
(* dimensions.                                                              *)
EXTENDS VirtualSign, TLC

CONSTANTS Thorough

VARIABLE b
\* blocks: the 11 real ones, every (family, id) pair with the rest of a real block, and wrong lengths
Fam == IF Thorough THEN 0..255 ELSE {0, 3, 4, 5, 8, 9, 20, 132, 255}
Ids == 0..255
Blocks == { Block(t) : t \in TypeNames }
       \cup { [Block("Max3000Side90x7") EXCEPT ![1] = f, ![2] = i] : f \in Fam, i \in Ids }
       \cup { [k \in 1..n |-> (k * 5) % 256] : n \in 0..40 }
       \cup { SubSeq(Block("HorizonSide96x8"), 1, 15), Block("HorizonSide96x8") \o <<0>> }
Init == b \in Blocks
Next == UNCHANGED b
Spec == Init /\ [][Next]_b

r == TypeFromBytes(b)
Total == r \in TypeNames \cup {"WrongConfigLength", "UnknownConfig"}
LengthRule == (r = "WrongConfigLength") = (Len(b) # 16)
AcceptRule == (r \in TypeNames) = (Len(b) = 16 /\ <<b[1], b[2]>> \in SupportedIds)

\* constant-level: the table itself
TableOK ==
    /\ Cardinality(TypeNames) = 11 /\ Cardinality(SupportedIds) = 11
    /\ \A t \in TypeNames :
        /\ BlockConsistent(Block(t), Dim(t)[1], Dim(t)[2])
        /\ TypeFromBytes(Block(t)) = t
        \* the virtual sign derives the same dimensions and records the type
        /\ LET s0 == [NewSign(1, "Manual") EXCEPT !.st = "ConfigInProgress"]
               s1 == Step(s0, SendData(0, Block(t))).s
           IN  s1.w = Dim(t)[1] /\ s1.h = Dim(t)[2] /\ s1.typ = t
ASSUME TableOK
=============================================================================
