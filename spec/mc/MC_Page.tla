------------------------------ MODULE MC_Page -------------------------------
(* C06 on the model: for every page size of a small exhaustive box, full    *)
(* reachability under set / clear / set-all / out-of-bounds probes.  Every  *)
(* state is one byte image.  Emits {w, h, id, path, obs, edges} per state.  *)
EXTENDS Page, TLC, Json

CONSTANTS Thorough, Emit

MaxArea == IF Thorough THEN 12 ELSE 6
Widths == 0..6
Heights == {0, 1, 2, 3, 7, 8, 9, 12}
Sizes == { wh \in Widths \X Heights : wh[1] * wh[2] <= MaxArea } \cup (IF Thorough THEN {<<1, 16>>, <<1, 17>>} ELSE {})

\* operations for a page of size w x h: every in-bounds coordinate, the edges just outside, far outside, set-all
OpsFor(w, h) ==
       { Op("set", x, y, v) : x \in 0..(w - 1), y \in 0..(h - 1), v \in BOOLEAN }
  \cup { Op("set", w, 0, TRUE), Op("set", 0, h, TRUE), Op("set", w, h, FALSE), Op("set", w + 7, h + 9, TRUE),
         Op("get", w, 0, FALSE), Op("get", 0, h, FALSE), Op("get", 1000000, 0, FALSE), Op("get", 0, 1000000, FALSE) }
  \cup { Op("setall", 0, 0, v) : v \in BOOLEAN }
OpSeq(w, h) == SetToSeq(OpsFor(w, h))

VARIABLES p, hist
vars == <<p, hist>>
View == p

Init == /\ p \in { NewPage((wh[1] * 37 + wh[2]) % 256, wh[1], wh[2]) : wh \in Sizes }
        /\ hist = <<>>
Next == \E op \in OpsFor(p.w, p.h) : p' = Apply(p, op).p /\ hist' = Append(hist, op)
Spec == Init /\ [][Next]_vars

\* frame of the page never changes
FrameInv == /\ Len(p.bytes) = TotalBytes(p.w, p.h)
            /\ Header(p) = <<(p.w * 37 + p.h) % 256, 16, 0, 0>>
            /\ \A k \in 1..Len(Padding(p)) : Padding(p)[k] = 255
\* C06 for every operation from every reachable image (the relations are stated independently of Apply)
OpsOK == \A op \in OpsFor(p.w, p.h) :
            LET a == Apply(p, op) IN
            CASE op.k = "setall" -> a.res = "ok" /\ SetAllRel(p, a.p, op.v) /\ ObsSetAll(PageObs(p), PageObs(a.p), op.v)
              [] op.k = "set" /\ InBounds(p.w, p.h, op.x, op.y) ->
                    a.res = "ok" /\ SetPixelRel(p, a.p, op.x, op.y, op.v) /\ ObsSetPixel(PageObs(p), PageObs(a.p), op.x, op.y, op.v)
              [] op.k = "get" /\ InBounds(p.w, p.h, op.x, op.y) -> a.res \in {"true", "false"} /\ a.p = p
              [] OTHER -> a.res = "panic" /\ a.p = p

EmitState == Emit =>
    LET ops == OpSeq(p.w, p.h) IN
    PrintT(<<"GEN", ToJson([w |-> p.w, h |-> p.h, id |-> PageId(p), path |-> hist, obs |-> PageObs(p),
                            edges |-> [j \in 1..Len(ops) |-> LET a == Apply(p, ops[j]) IN [op |-> ops[j], res |-> a.res, obs |-> PageObs(a.p)]]])>>)
=============================================================================
