SPECIFICATION Spec
CONSTANTS
  CallName = "load"
  Alphabet = "full"
  Me = 65535
  Other = 0
  TypeName = "Max3000Side90x7"
  MaxQueries = 4
  Emit = TRUE
INVARIANTS TypeOK TransfersOK C11OK EmitScript
CHECK_DEADLOCK FALSE
