SPECIFICATION Spec
CONSTANTS
  Thorough = TRUE
INVARIANTS AllDamageDetected AcceptedOnlyIfConsistent CountEmit
CHECK_DEADLOCK FALSE
