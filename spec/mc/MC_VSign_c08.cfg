SPECIFICATION Spec
CONSTANTS
  Thorough = TRUE
  Emit = TRUE
  Flip = "Manual"
  MaxPending = 48
  MaxPages = 1
  MaxChunks = 3
VIEW View
CONSTRAINT Bound
INVARIANTS Inv EmitState
CHECK_DEADLOCK FALSE
