------------------------------ MODULE MC_VSign ------------------------------
(* C12/C13 on the model: one virtual sign driven by every message of an     *)
(* adversarial alphabet, explored to a fixed point under size bounds.       *)
(* The history variable is hidden by VIEW, so TLC keeps one shortest        *)
(* witness path per distinct sign state and emits                           *)
(*   {path, obs, idx, edges}  per state (mode G).                           *)
EXTENDS VirtualSign, TLC, Json

CONSTANTS Thorough, Emit, Flip, MaxPending, MaxPages, MaxChunks

A == 3        \* own address
B == 4        \* a foreign address

\* configuration blocks
CfgTiny    == <<4, 1, 0, 0, 8, 8, 0, 0, 0, 8, 0, 0, 0, 0, 0, 0>>          \* Max3000 family, unknown id, 8 x 8: 1 chunk per page
CfgHorizon == <<8, 2, 0, 0, 0, 16, 0, 8, 1, 0, 8, 0, 0, 0, 0, 0>>         \* Horizon family, unknown id, 8 x 16: 2 chunks per page
CfgKnown   == Block("Max3000Dash30x7")                                    \* 30 x 7: 3 chunks per page
CfgBadFam  == <<5, 32, 0, 6, 7, 30, 30, 30, 0, 8, 0, 0, 0, 0, 0, 0>>
CfgZero    == <<4, 1, 0, 0, 0, 8, 0, 0, 0, 8, 0, 0, 0, 0, 0, 0>>          \* height 0
CfgWide    == <<4, 153, 0, 0, 7, 200, 200, 0, 0, 8, 0, 0, 0, 0, 0, 0>>    \* widths sum to 400 > 255
\* page chunks
ChunkA == <<1, 16, 0, 0, 1, 2, 3, 4, 5, 6, 7, 8, 255, 255, 255, 255>>
ChunkB == [i \in 1..16 |-> 16 + i]
ChunkShort == <<9, 8, 7, 6, 5>>
ChunkEmpty == <<>>

DataVals == IF Thorough THEN <<CfgTiny, CfgHorizon, CfgKnown, CfgBadFam, CfgZero, CfgWide, ChunkA, ChunkB, ChunkShort, ChunkEmpty>>
            ELSE <<CfgTiny, CfgBadFam, ChunkA, ChunkShort>>
Counts == IF Thorough THEN 0..4 ELSE 0..2
Offsets == <<0, 16>>

Alpha ==
       <<Hello(A), Hello(B), QueryState(A), QueryState(B), Goodbye(A), Goodbye(B), PixelsComplete(A), PixelsComplete(B)>>
    \o [i \in 1..6 |-> RequestOperation(A, <<"ReceiveConfig", "ReceivePixels", "ShowLoadedPage", "LoadNextPage", "StartReset", "FinishReset">>[i])]
    \o [i \in 1..6 |-> RequestOperation(B, <<"ReceiveConfig", "ReceivePixels", "ShowLoadedPage", "LoadNextPage", "StartReset", "FinishReset">>[i])]
    \o [i \in 1..Cardinality(Counts) |-> DataChunksSent(i - 1)]
    \o [i \in 1..(2 * Len(DataVals)) |-> SendData(Offsets[((i - 1) % 2) + 1], DataVals[((i - 1) \div 2) + 1])]
    \o <<ReportState(A, "Unconfigured"), AckOperation(A, "StartReset"), Unknown(MkFrame(A, 9, <<1, 2>>))>>

VARIABLES s, hist
vars == <<s, hist>>
View == s

Init == s = NewSign(A, Flip) /\ hist = <<>>
Next == \E i \in 1..Len(Alpha) : s' = Step(s, Alpha[i]).s /\ hist' = Append(hist, i)
Spec == Init /\ [][Next]_vars

Bound == Len(s.pending) <= MaxPending /\ Len(s.pages) <= MaxPages /\ s.chunks <= MaxChunks

\* invariants of the design
Inv == /\ PagesComplete(s) /\ PendingOnlyWhen(s) /\ CounterZeroOutsideTransfer(s)
       /\ BlankWhenUnconfigured(s) /\ PagesOnlyAfterConfig(s) /\ TypeMatchesDims(s)
\* the documented behaviour of every step from every reachable state (also: Step is total)
StepOK == \A i \in 1..Len(Alpha) : StepProps(s, Alpha[i])

\* VirtualSign refines the size abstraction SignAbs, whose invariants Apalache shows inductive for unbounded counters and lengths
Abs == INSTANCE SignAbs WITH st <- s.st, chunks <- s.chunks, pend <- Len(s.pending), npages <- Len(s.pages), cfgd <- (s.w > 0 /\ s.h > 0)
AbsRefines == [][Abs!Next]_<<s.st, s.chunks, Len(s.pending), Len(s.pages), s.w > 0 /\ s.h > 0>>
AbsInv == Abs!IndInv

Silent(i) == LET x == Step(s, Alpha[i]) IN x.r = NoReply /\ x.s = s
NonSilent == SelectSeq([i \in 1..Len(Alpha) |-> i], LAMBDA i : ~Silent(i))
EmitState == Emit =>
    LET ns == NonSilent IN
    PrintT(<<"GEN", ToJson([path |-> hist, obs |-> SignObs(s), idx |-> ns,
                            edges |-> [j \in 1..Len(ns) |->
                                LET x == Step(s, Alpha[ns[j]]) IN [r |-> x.r, obs |-> SignObs(x.s)]]])>>)
ASSUME Emit => PrintT(<<"GEN", ToJson([alphabet |-> Alpha, addr |-> A, flip |-> Flip])>>)
=============================================================================
