----------------------------- MODULE MC_Serial ------------------------------
(* C16 / C18 / C20 / C17 on the model.                                      *)
(*  kind "pm":    every message kind x reply tape x fault point: what the   *)
(*                serial bus writes, whether it reads, what it returns and  *)
(*                how long it sleeps (logical clock).                       *)
(*  kind "setup": every prior port setting x failure point.                 *)
(*  kind "twin":  controller calls run directly on the bus and over the     *)
(*                serial path give the same success, replies and signs.     *)
EXTENDS Serial, Controller, TLC

CONSTANTS Thorough

Msgs == SpecificMsgs({3, 65535}, {<<>>, <<1, 2>>, [i \in 1..16 |-> i]}) \cup {Unknown(MkFrame(3, 3, <<163>>)), Unknown(MkFrame(3, 2, <<1>>))}
ReplyLines ==
       { MsgWireNL(ReportState(3, st)) : st \in States }
  \cup { MsgWireNL(AckOperation(3, op)) : op \in Operations }
  \cup { MsgWireNL(Unknown(MkFrame(9, 9, <<9>>))), <<58, 48, 49, 13, 10>>, <<13, 10>>, <<10>>, <<>> }
\* the receive side holds the reply line followed by a second line (an extra read would be visible)
Tapes == { a \o MsgWireNL(ReportState(3, "PageLoaded")) : a \in ReplyLines \ {<<>>} } \cup {<<>>}

VARIABLES kind, m, rx, prior, fail
vars == <<kind, m, rx, prior, fail>>

Init == \/ kind = "pm" /\ m \in Msgs /\ rx \in Tapes /\ prior = Target /\ fail = "none"
        \/ kind = "setup" /\ prior \in Settings /\ fail \in FailPoints /\ m = NoReply /\ rx = <<>>
Next == UNCHANGED vars
Spec == Init /\ [][Next]_vars

pm == PM(m, rx)
\* C16
OneFrameOut == kind = "pm" => pm.tx = EncodeNL(MsgToFrame(m))
ReadsIffDue == kind = "pm" => (pm.consumed > 0 => ResponseExpected(m)) /\ (~ResponseExpected(m) => pm.res = NoReply /\ pm.consumed = 0)
OneLineIn   == kind = "pm" /\ ResponseExpected(m) => pm.consumed = Len(LineFrom(rx, 0))
NeverInvented == kind = "pm" /\ ResponseExpected(m) =>
                    \/ pm.res = ErrReply /\ Decode(LineFrom(rx, 0)).kind # "ok"
                    \/ pm.res # ErrReply /\ MsgToFrame(pm.res) = FrameOf(Decode(LineFrom(rx, 0)))
\* C18: the only sleeps are 30 after a data chunk and 100 after an in-progress report
Pacing == kind = "pm" =>
            pm.sleep = (IF m.k = "SendData" THEN 30 ELSE 0)
                     + (IF pm.res.k = "ReportState" /\ pm.res.s \in {"PageLoadInProgress", "PageShowInProgress"} THEN 100 ELSE 0)
\* C20
SetupRule == kind = "setup" => SetupOK(Setup(prior, fail), fail # "none")

\* C17: for every message a sign-side state can receive, the wire path gives the same reply and state as the direct path
\* (checked over the sign states of the controller scenarios below, constant-level)
Sign0 == NewSign(3, "Manual")
RECURSIVE RunWire(_, _, _)
RunWire(c, signs, fuel) ==
    IF ~Running(c) \/ fuel = 0 THEN [c |-> c, signs |-> signs]
    ELSE LET x == WireStep(signs, CMsg(c)) IN RunWire(Recv(c, x.r), x.signs, fuel - 1)
RECURSIVE RunDirect(_, _, _)
RunDirect(c, signs, fuel) ==
    IF ~Running(c) \/ fuel = 0 THEN [c |-> c, signs |-> signs]
    ELSE LET x == BusStep(signs, CMsg(c)) IN RunDirect(Recv(c, x.r), x.signs, fuel - 1)

PageB == [k \in 1..48 |-> IF k = 1 THEN 7 ELSE IF k = 2 THEN 16 ELSE IF k <= 4 THEN 0 ELSE IF k <= 34 THEN (k * 3) % 256 ELSE 255]
Scenario == << Call(3, "configure", <<Block("Max3000Dash30x7")>>), Call(3, "send_pages", <<PageB, PageB>>), Call(3, "show", <<>>),
               Call(3, "load", <<>>), Call(3, "configure_if_needed", <<Block("Max3000Dash30x7")>>),
               Call(3, "configure", <<Block("HorizonSide96x8")>>), Call(3, "shut_down", <<>>), Call(3, "show", <<>>),
               Call(4, "configure", <<Block("Max3000Dash30x7")>>) >>
RECURSIVE TwinOK(_, _, _)
TwinOK(k, sd, sw) ==
    IF k > Len(Scenario) THEN TRUE
    ELSE LET d == RunDirect(Scenario[k], sd, 200)
             w == RunWire(Scenario[k], sw, 200)
             okd == d.c.out \in {"Ok", "Ok:Manual", "Ok:Automatic"}
             okw == w.c.out \in {"Ok", "Ok:Manual", "Ok:Automatic"}
         IN  /\ okd = okw
             /\ (okd => d.c.out = w.c.out)
             /\ BusObs(d.signs) = BusObs(w.signs)
             /\ TwinOK(k + 1, d.signs, w.signs)
ASSUME TwinOK(1, <<Sign0>>, <<Sign0>>)
ASSUME TwinOK(1, <<NewSign(3, "Automatic"), NewSign(9, "Manual")>>, <<NewSign(3, "Automatic"), NewSign(9, "Manual")>>)
=============================================================================
