SPECIFICATION Spec
CONSTANTS
  Thorough = TRUE
INVARIANTS NeverPastLF AtReturn WriteOK
CHECK_DEADLOCK FALSE
