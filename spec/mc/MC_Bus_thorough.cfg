SPECIFICATION Spec
CONSTANTS
  Thorough = TRUE
  Emit = TRUE
  N = 2
  MaxPending = 32
  MaxPages = 1
  MaxChunks = 2
VIEW View
CONSTRAINT Bound
INVARIANTS Inv Isolation EmitState
CHECK_DEADLOCK FALSE
