SPECIFICATION Spec
CONSTANTS
  Thorough = TRUE
  Emit = TRUE
VIEW View
INVARIANTS FrameInv OpsOK EmitState
CHECK_DEADLOCK FALSE
