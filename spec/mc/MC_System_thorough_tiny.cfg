SPECIFICATION SSpec
CONSTANTS
  Thorough = TRUE
  Emit = FALSE
  Flip = "Manual"
  MaxPending = 48
  MaxPages = 2
  MaxChunks = 4
  CtlType = "tiny"
  MaxCalls = 5
VIEW SView
CONSTRAINT Bound
INVARIANTS Post SInv
CHECK_DEADLOCK FALSE
