----------------------------- MODULE MC_Stream ------------------------------
(* C15 on the model: streams of 1..3 frames plus trailing bytes are read    *)
(* frame by frame under every I/O schedule (every interrupt placement up to *)
(* a bound, a hard error or early end of stream at every call); frames are  *)
(* written to a sink that accepts 1..3 bytes per call, interrupts, accepts  *)
(* nothing or fails at every call.                                          *)
EXTENDS Stream, TLC

CONSTANTS Thorough

F1 == MkFrame(1, 2, <<>>)
F2 == MkFrame(65535, 4, <<15>>)
F3 == MkFrame(3, 0, <<10, 13>>)        \* data bytes that happen to be LF / CR values (sent as hex text, so harmless)
Junk == {<<>>, <<58, 48>>, <<10>>, <<13, 10>>, <<255, 0, 58>>}
Streams ==
       { EncodeNL(a) \o t : a \in {F1, F2}, t \in Junk }
  \cup { EncodeNL(a) \o EncodeNL(b) \o t : a \in {F1, F3}, b \in {F2}, t \in {<<>>, <<58>>} }
  \cup { Encode(F2) }                                         \* no terminator: ends at end of stream
  \cup { <<58, 48, 49, 10>> \o EncodeNL(F1) }                 \* a malformed line first
  \cup (IF Thorough THEN { EncodeNL(F1) \o EncodeNL(F2) \o EncodeNL(F3) \o <<1>> } ELSE {})

MaxIntr == IF Thorough THEN 2 ELSE 1

VARIABLES mode, r, pos0, nintr, results, w, lim
vars == <<mode, r, pos0, nintr, results, w, lim>>

Init == \/ /\ mode = "read" /\ r \in { NewReader(s, 0) : s \in Streams } /\ pos0 = 0 /\ nintr = 0 /\ results = <<>>
           /\ w = NewWriter(F1) /\ lim = 1
        \/ /\ mode = "write" /\ w \in { NewWriter(f) : f \in {F1, F2, F3} } /\ lim \in 1..3 /\ nintr = 0
           /\ r = NewReader(<<>>, 0) /\ pos0 = 0 /\ results = <<>>

ReadStep ==
    /\ mode = "read" /\ Reading(r)
    /\ \/ \E k \in 1..MinN(Req, Avail(r)) : r' = ReadBytes(r, k) /\ UNCHANGED nintr
       \/ nintr < MaxIntr /\ r' = ReadIntr(r) /\ nintr' = nintr + 1
       \/ r' = ReadFail(r) /\ UNCHANGED nintr
       \/ Avail(r) = 0 /\ r' = ReadEof(r) /\ UNCHANGED nintr
    /\ UNCHANGED <<mode, pos0, results, w, lim>>

\* the caller reads the next frame from the same stream
NextFrame ==
    /\ mode = "read" /\ ~Reading(r) /\ r.out # IoErr /\ r.pos < Len(r.src)
    /\ results' = Append(results, r.out)
    /\ pos0' = r.pos /\ r' = NewReader(r.src, r.pos)
    /\ UNCHANGED <<mode, nintr, w, lim>>

WriteStep ==
    /\ mode = "write" /\ Writing(w)
    /\ \/ \E k \in 1..MinN(lim, Len(Remaining(w))) : w' = WriteAccept(w, k) /\ UNCHANGED nintr
       \/ nintr < MaxIntr /\ w' = WriteIntr(w) /\ nintr' = nintr + 1
       \/ w' = WriteZero(w) /\ UNCHANGED nintr
       \/ w' = WriteFail(w) /\ UNCHANGED nintr
    /\ UNCHANGED <<mode, r, pos0, results, lim>>

Next == ReadStep \/ NextFrame \/ WriteStep
Spec == Init /\ [][Next]_vars

\* never past the first line feed of the current line
NeverPastLF == mode = "read" => r.pos <= pos0 + Len(LineFrom(r.src, pos0))
\* at return without a hard error: exactly the line, decoded
AtReturn == (mode = "read" /\ ~Reading(r) /\ r.out # IoErr) => ReadContract(r.src, pos0, r)
\* a hard error surfaces as an I/O error (not as a frame, not as a parse error)
\* and everything delivered or a proper prefix with an I/O error
WriteOK == mode = "write" => WriteContract(w)
=============================================================================
