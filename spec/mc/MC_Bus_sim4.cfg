SPECIFICATION Spec
CONSTANTS
  Thorough = TRUE
  Emit = FALSE
  N = 4
  MaxPending = 32
  MaxPages = 2
  MaxChunks = 3
VIEW View
CONSTRAINT Bound
INVARIANTS Inv Isolation EmitState
CHECK_DEADLOCK FALSE
