SPECIFICATION Spec
CONSTANTS
  Thorough = TRUE
  Emit = TRUE
INVARIANTS Total InvalidIffMalformed Consistent ReEncode EmitVec
CHECK_DEADLOCK FALSE
