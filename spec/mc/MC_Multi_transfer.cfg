SPECIFICATION Spec
CONSTANTS
  Policy = "transfer"
INVARIANT Post
CHECK_DEADLOCK FALSE
