SPECIFICATION Spec
CONSTANTS
  Thorough = TRUE
  Emit = TRUE
INVARIANTS Shape Sum0 RoundTrip RoundTripNL NLisCRLF WellF LenBound EmitVec
CHECK_DEADLOCK FALSE
