SPECIFICATION Spec
CONSTANTS
  CallName = "send_pages"
  Alphabet = "full"
  Me = 3
  Other = 4
  TypeName = "Max3000Side90x7"
  MaxQueries = 4
  Emit = TRUE
INVARIANTS TypeOK TransfersOK C11OK EmitScript
CHECK_DEADLOCK FALSE
