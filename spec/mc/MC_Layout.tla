----------------------------- MODULE MC_Layout ------------------------------
(* C07 on the model: the layout formulae for every size of an exhaustive    *)
(* box and the 11 real sizes: shape of a new page, injectivity and range of *)
(* the pixel index, from_bytes acceptance.  Emits expected images.          *)
EXTENDS Page, SignType, TLC, Json

CONSTANTS Thorough, Emit

RealSizes == { Dim(t) : t \in TypeNames }
Box == ((0..(IF Thorough THEN 64 ELSE 12)) \X (0..33)) \cup RealSizes \cup (IF Thorough THEN {<<200, 33>>, <<255, 16>>} ELSE {})

VARIABLE wh
Init == wh \in Box
Next == UNCHANGED wh
Spec == Init /\ [][Next]_wh

w == wh[1]
h == wh[2]
id == (w * 7 + h * 3) % 256
pg == NewPage(id, w, h)

NewShape ==
    /\ Len(pg.bytes) = TotalBytes(w, h)
    /\ Len(pg.bytes) % 16 = 0 /\ Len(pg.bytes) >= 16
    /\ Len(pg.bytes) - DataBytes(w, h) \in 0..15
    /\ SubSeq(pg.bytes, 1, 4) = <<id, 16, 0, 0>>
    /\ \A k \in 5..DataBytes(w, h) : pg.bytes[k] = 0
    /\ \A k \in (DataBytes(w, h) + 1)..Len(pg.bytes) : pg.bytes[k] = 255
    /\ DataBytes(w, h) = 4 + w * ((h + 7) \div 8)

\* distinct pixels never share a bit; every pixel lies in the data area; LSB on top
Pix == (0..(w - 1)) \X (0..(h - 1))
Slot(xy) == <<ByteIndex(h, xy[1], xy[2]), BitIndex(xy[2])>>
Injective == Cardinality({ Slot(xy) : xy \in Pix }) = w * h
InData == \A xy \in Pix : ByteIndex(h, xy[1], xy[2]) >= 4 /\ ByteIndex(h, xy[1], xy[2]) < DataBytes(w, h) /\ BitIndex(xy[2]) = xy[2] % 8
\* setting one pixel of a fresh page sets exactly that bit (2^(y mod 8) in that byte)
SetOne == \A xy \in Pix :
            LET q == SetPixel(pg, xy[1], xy[2], TRUE) IN
            /\ q.bytes[ByteIndex(h, xy[1], xy[2]) + 1] = Pow2(xy[2] % 8)
            /\ Len(q.bytes) = Len(pg.bytes)
            /\ GetPixel(q, xy[1], xy[2])
FromBytes == \A len \in {0, TotalBytes(w, h) - 16, TotalBytes(w, h) - 1, TotalBytes(w, h), TotalBytes(w, h) + 1, TotalBytes(w, h) + 15, TotalBytes(w, h) + 16, DataBytes(w, h)} :
                len >= 0 => (FromBytesOk(w, h, len) = (len = TotalBytes(w, h)))

\* the definitions the TLAPS proof (spec/proofs/PixelIndex.tla: injectivity, range and padding for ALL sizes) speaks about
\* are the ones used here
PI == INSTANCE PixelIndex
SameDefs == /\ PI!BPC(h) = BytesPerColumn(h) /\ PI!DataBytes(w, h) = DataBytes(w, h) /\ PI!TotalBytes(w, h) = TotalBytes(w, h)
            /\ \A xy \in Pix : PI!ByteIndex(h, xy[1], xy[2]) = ByteIndex(h, xy[1], xy[2]) /\ PI!BitIndex(xy[2]) = BitIndex(xy[2])

WA == INSTANCE WideArith
WideSameDefs == /\ WA!WideChunks(w, h) = WideChunks(w, h) /\ WA!TotalBytes(w, h) = TotalBytes(w, h)
                /\ \A xy \in Pix : <<WA!WideHi(h, xy[1], xy[2]), WA!WideLo(h, xy[1], xy[2])>> = WideIndex(h, xy[1], xy[2])
                                     /\ WA!ByteIndex(h, xy[1], xy[2]) = ByteIndex(h, xy[1], xy[2])

\* the wide (two-limb) forms used on recorded pages of 4 GiB and more agree with the plain ones
WideAgrees == /\ WideChunks(w, h) * 16 = TotalBytes(w, h)
              /\ \A xy \in Pix : LET wi == WideIndex(h, xy[1], xy[2]) IN wi[1] * 65536 + wi[2] = ByteIndex(h, xy[1], xy[2]) /\ wi[2] \in 0..65535

TallAgrees == /\ TallBPC(h \div 8, h % 8) = BytesPerColumn(h) /\ TallChunks(w, h \div 8, h % 8) * 16 = TotalBytes(w, h)
              /\ LET e == TallDataEnd(w, h \div 8, h % 8) IN e[1] * 65536 + e[2] = DataBytes(w, h)
              /\ \A xy \in Pix : LET t == TallIndex(h \div 8, h % 8, xy[1], xy[2] \div 8) IN t[1] * 65536 + t[2] = ByteIndex(h, xy[1], xy[2])

\* mode G: for a subset of sizes (all of them would be large), the fresh image and each single-pixel image's changed byte
EmitThis == w <= (IF Thorough THEN 24 ELSE 9) \/ wh \in RealSizes
EmitVec == (Emit /\ EmitThis) =>
    LET ps == SetToSeq(Pix) IN
    PrintT(<<"GEN", ToJson([w |-> w, h |-> h, id |-> id, bytes |-> pg.bytes, total |-> TotalBytes(w, h),
                            pix |-> [j \in 1..Len(ps) |->
                                        LET xy == ps[j] IN [x |-> xy[1], y |-> xy[2], byte |-> ByteIndex(h, xy[1], xy[2]), val |-> Pow2(xy[2] % 8)]]])>>)
=============================================================================
