SPECIFICATION Spec
CONSTANTS
  Thorough = FALSE
  Emit = TRUE
INVARIANTS Identity Recognised AddrKept UnknownIsWrapper TableInjective EmitVec
CHECK_DEADLOCK FALSE
