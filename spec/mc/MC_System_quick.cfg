SPECIFICATION SSpec
CONSTANTS
  Thorough = FALSE
  Emit = FALSE
  Flip = "Manual"
  MaxPending = 32
  MaxPages = 2
  MaxChunks = 3
  CtlType = "tiny"
  MaxCalls = 4
VIEW SView
CONSTRAINT Bound
INVARIANTS Post SInv
CHECK_DEADLOCK FALSE
