SPECIFICATION Spec
CONSTANTS
  Thorough = TRUE
  Emit = TRUE
INVARIANTS Identity Recognised AddrKept UnknownIsWrapper TableInjective EmitVec
CHECK_DEADLOCK FALSE
