----------------------------- MODULE MC_Corrupt -----------------------------
(* C02 on the model: the wire FORMAT detects every single transit damage:   *)
(* for every frame of a bounded domain and every damaged version of either  *)
(* encoding, decoding fails or returns exactly the original frame.          *)
EXTENDS Frame, TLC

CONSTANTS Thorough

Addrs == IF Thorough THEN {0, 255, 256, 4660, 65535} ELSE {0, 4660, 65535}
Types == IF Thorough THEN {0, 1, 4, 128, 255} ELSE {0, 4, 255}
Vals  == IF Thorough THEN {0, 15, 16, 128, 255} ELSE {0, 16, 255}
MaxLen == IF Thorough THEN 2 ELSE 1
Datas == UNION { [1..n -> Vals] : n \in 0..MaxLen }

\* replacement characters: every structural class, and for thorough every byte value
Alphabet == IF Thorough THEN 0..255
            ELSE {0, 10, 13, 32, 47, 48, 49, 56, 57, 58, 59, 64, 65, 66, 70, 71, 96, 97, 102, 103, 127, 128, 255}

VARIABLE f
Init == f \in { MkFrame(a, t, d) : a \in Addrs, t \in Types, d \in Datas }
Next == UNCHANGED f
Spec == Init /\ [][Next]_f

AllDamageDetected ==
    \A s \in {Encode(f), EncodeNL(f)} :
        \A c \in Corruptions(s, Alphabet) : DamageSafe(f, Decode(c))

\* A string is accepted only if declared length and checksum are right (on everything decoded here).
AcceptedOnlyIfConsistent ==
    \A s \in {Encode(f), EncodeNL(f)} :
        \A c \in Corruptions(s, Alphabet) :
            LET r == Decode(c) IN
            r.kind = "ok" => /\ Encode(FrameOf(r)) = Upper(StripNL(c))
                             /\ Wellformed(c)

\* number of damaged strings examined for this frame (summed by the driver)
CountEmit == PrintT(<<"CNT", Cardinality(Corruptions(Encode(f), Alphabet)) + Cardinality(Corruptions(EncodeNL(f), Alphabet))>>)
=============================================================================
