SPECIFICATION Spec
CONSTANTS
  Thorough = TRUE
  Emit = TRUE
  Flip = "Manual"
  MaxPending = 48
  MaxPages = 2
  MaxChunks = 4
VIEW View
CONSTRAINT Bound
INVARIANTS Inv StepOK AbsInv EmitState
PROPERTIES AbsRefines
CHECK_DEADLOCK FALSE
