SPECIFICATION Spec
CONSTANTS
  Thorough = FALSE
  Emit = TRUE
INVARIANTS Total InvalidIffMalformed Consistent ReEncode EmitVec
CHECK_DEADLOCK FALSE
