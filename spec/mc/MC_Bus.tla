------------------------------- MODULE MC_Bus -------------------------------
(* C14 on the model: a bus of N virtual signs with distinct addresses and   *)
(* mixed flip styles, every interleaving of a per-sign alphabet (both signs *)
(* can be mid-transfer at once) plus messages for an absent address.        *)
(* Emits {path, obs, idx, edges} per distinct bus state (mode G).           *)
EXTENDS Bus, TLC, Json

CONSTANTS Thorough, Emit, N, MaxPending, MaxPages, MaxChunks

Addr(i) == <<3, 4, 65535, 0>>[i]
FlipOf(i) == IF i % 2 = 1 THEN "Manual" ELSE "Automatic"
Absent == 9

CfgTiny == <<4, 1, 0, 0, 8, 8, 0, 0, 0, 8, 0, 0, 0, 0, 0, 0>>
ChunkA == <<1, 16, 0, 0, 1, 2, 3, 4, 5, 6, 7, 8, 255, 255, 255, 255>>
ChunkShort == <<9, 8, 7>>

Ops == IF Thorough THEN <<"ReceiveConfig", "ReceivePixels", "ShowLoadedPage", "LoadNextPage", "StartReset", "FinishReset">>
       ELSE <<"ReceiveConfig", "ReceivePixels", "ShowLoadedPage", "StartReset", "FinishReset">>

PerAddr(a) == <<Hello(a), QueryState(a), PixelsComplete(a), Goodbye(a)>> \o [i \in 1..Len(Ops) |-> RequestOperation(a, Ops[i])]

Alpha == Flatten([i \in 1..N |-> PerAddr(Addr(i))])
      \o <<Hello(Absent), RequestOperation(Absent, "StartReset"), Goodbye(Absent), PixelsComplete(Absent)>>
      \o <<DataChunksSent(0), DataChunksSent(1), DataChunksSent(2)>>
      \o <<SendData(0, CfgTiny), SendData(0, ChunkA), SendData(16, ChunkA)>>
      \o (IF Thorough THEN <<SendData(0, ChunkShort), AckOperation(Addr(1), "StartReset")>> ELSE <<>>)

VARIABLES signs, hist
vars == <<signs, hist>>
View == signs

Init == signs = [i \in 1..N |-> NewSign(Addr(i), FlipOf(i))] /\ hist = <<>>
Next == \E i \in 1..Len(Alpha) : signs' = BusStep(signs, Alpha[i]).signs /\ hist' = Append(hist, i)
Spec == Init /\ [][Next]_vars

Bound == \A i \in 1..N : Len(signs[i].pending) <= MaxPending /\ Len(signs[i].pages) <= MaxPages /\ signs[i].chunks <= MaxChunks

Inv == DistinctAddrs(signs) /\ \A i \in 1..N : PagesComplete(signs[i]) /\ PendingOnlyWhen(signs[i])
Isolation == \A i \in 1..Len(Alpha) : AddressedIsolation(signs, Alpha[i]) /\ UnaddressedOnlyReceiving(signs, Alpha[i])
\* both signs mid-transfer at once is reachable (non-vacuity witness: TLC reports a violation of its negation if asked)
BothReceiving == \A i \in 1..N : Receiving(signs[i])

Silent(i) == LET x == BusStep(signs, Alpha[i]) IN x.r = NoReply /\ x.signs = signs
NonSilent == SelectSeq([i \in 1..Len(Alpha) |-> i], LAMBDA i : ~Silent(i))
EmitState == Emit =>
    LET ns == NonSilent IN
    PrintT(<<"GEN", ToJson([path |-> hist, obs |-> BusObs(signs), idx |-> ns,
                            edges |-> [j \in 1..Len(ns) |->
                                LET x == BusStep(signs, Alpha[ns[j]]) IN [r |-> x.r, obs |-> BusObs(x.signs)]]])>>)
ASSUME Emit => PrintT(<<"GEN", ToJson([alphabet |-> Alpha, signs |-> [i \in 1..N |-> [addr |-> Addr(i), flip |-> FlipOf(i)]]])>>)
=============================================================================
