----------------------------- MODULE MC_MsgWire -----------------------------
(* C05 on the model: every specific message survives Message -> Frame ->    *)
(* wire -> Frame -> Message, and no two specific messages share a wire      *)
(* encoding.  Emits {m, wire} vectors.                                      *)
EXTENDS Message, TLC, Json

CONSTANTS Thorough, Emit

Addrs == IF Thorough THEN {0, 1, 255, 256, 4660, 65535} ELSE {0, 4660, 65535}
Vals == {0, 85, 161, 255}
Datas == UNION { [1..n -> Vals] : n \in 0..(IF Thorough THEN 3 ELSE 2) }
           \cup { [i \in 1..16 |-> (i * 13) % 256], [i \in 1..255 |-> (i * 7) % 256] }

Msgs == SpecificMsgs(Addrs, Datas)

VARIABLE m
Init == m \in Msgs
Next == UNCHANGED m
Spec == Init /\ [][Next]_m

RoundTrip   == FrameToMsg(FrameOf(Decode(MsgWire(m)))) = m
RoundTripNL == FrameToMsg(FrameOf(Decode(MsgWireNL(m)))) = m
DecodesOk   == Decode(MsgWire(m)).kind = "ok"
\* constant-level: pairwise distinct wires (checked once)
Injective == Cardinality({ MsgWire(x) : x \in Msgs }) = Cardinality(Msgs)
ASSUME Injective
EmitVec == Emit => PrintT(<<"GEN", ToJson([m |-> m, wire |-> MsgWire(m)])>>)
=============================================================================
