SPECIFICATION Spec
CONSTANTS
  Thorough = TRUE
  Emit = TRUE
INVARIANTS RoundTrip RoundTripNL DecodesOk EmitVec
CHECK_DEADLOCK FALSE
