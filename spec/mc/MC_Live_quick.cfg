SPECIFICATION LiveSpec
CONSTANTS
  Thorough = FALSE
  Emit = FALSE
  Flip = "Manual"
  MaxPending = 16
  MaxPages = 1
  MaxChunks = 2
  CtlType = "tiny"
  MaxCalls = 3
CONSTRAINT Bound
PROPERTY CallsTerminate
CHECK_DEADLOCK FALSE
