SPECIFICATION Spec
CONSTANTS
  CallName = "configure_if_needed"
  Alphabet = "full"
  Me = 3
  Other = 4
  TypeName = "HorizonDash40x12"
  MaxQueries = 4
  Emit = TRUE
INVARIANTS TypeOK TransfersOK C11OK EmitScript
CHECK_DEADLOCK FALSE
