SPECIFICATION Spec
CONSTANTS
  Thorough = FALSE
  Emit = TRUE
INVARIANTS NewShape Injective InData SetOne FromBytes EmitVec
CHECK_DEADLOCK FALSE
