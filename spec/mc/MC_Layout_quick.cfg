SPECIFICATION Spec
CONSTANTS
  Thorough = FALSE
  Emit = TRUE
INVARIANTS SameDefs WideAgrees WideSameDefs NewShape Injective InData SetOne FromBytes EmitVec
CHECK_DEADLOCK FALSE
