------------------------------ MODULE MC_Frame ------------------------------
(* C01 on the model: every frame of a boundary domain round-trips through   *)
(* the documented encoding; also emits {frame, enc} vectors (mode G).       *)
EXTENDS Frame, TLC, Json

CONSTANTS Thorough, Emit

Addrs == {0, 1, 127, 128, 255, 256, 4660, 32768, 65535}
Types == IF Thorough THEN {0, 1, 2, 3, 4, 5, 6, 127, 128, 255} ELSE {0, 1, 6, 128, 255}
Vals  == IF Thorough THEN {0, 1, 15, 16, 127, 128, 255} ELSE {0, 15, 128, 255}
MaxLen == IF Thorough THEN 3 ELSE 2
Blocks == { [i \in 1..16 |-> (i * 17) % 256], [i \in 1..255 |-> (i * 7 + 3) % 256],
            [i \in 1..255 |-> 255], [i \in 1..254 |-> 0] }
Datas == UNION { [1..n -> Vals] : n \in 0..MaxLen } \cup Blocks

VARIABLE f
Init == f \in { MkFrame(a, t, d) : a \in Addrs, t \in Types, d \in Datas }
Next == UNCHANGED f
Spec == Init /\ [][Next]_f

Shape      == ShapeOK(f, Encode(f))
Sum0       == SumZero(Encode(f))
RoundTrip  == Decode(Encode(f)) = Ok(f)
RoundTripNL == Decode(EncodeNL(f)) = Ok(f)
NLisCRLF   == EncodeNL(f) = Encode(f) \o <<13, 10>>
WellF      == Wellformed(Encode(f)) /\ Wellformed(EncodeNL(f))
LenBound   == /\ TryNewData(255).res = "ok" /\ TryNewData(0).res = "ok"
              /\ TryNewData(256) = [res |-> "toolong", max |-> 255, actual |-> 256]
              /\ TryNewData(65536).res = "toolong"
\* mode G: one vector per frame
EmitVec == Emit => PrintT(<<"GEN", ToJson([addr |-> f.addr, type |-> f.type, data |-> f.data,
                                           enc |-> Encode(f)])>>)
=============================================================================
