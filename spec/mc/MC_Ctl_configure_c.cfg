SPECIFICATION Spec
CONSTANTS
  CallName = "configure"
  Alphabet = "full"
  Me = 4660
  Other = 4661
  TypeName = "Max3000Dash30x7"
  MaxQueries = 4
  Emit = TRUE
INVARIANTS TypeOK TransfersOK C11OK EmitScript
CHECK_DEADLOCK FALSE
