SPECIFICATION Spec
CONSTANTS
  CallName = "configure"
  Alphabet = "full"
  Me = 0
  Other = 65535
  TypeName = "HorizonFront160x16"
  MaxQueries = 4
  Emit = TRUE
INVARIANTS TypeOK TransfersOK C11OK EmitScript
CHECK_DEADLOCK FALSE
