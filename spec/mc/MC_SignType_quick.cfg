SPECIFICATION Spec
CONSTANTS
  Thorough = FALSE
INVARIANTS Total LengthRule AcceptRule
CHECK_DEADLOCK FALSE
