SPECIFICATION Spec
CONSTANTS
  Thorough = FALSE
  Emit = TRUE
  Flip = "Automatic"
  MaxPending = 32
  MaxPages = 1
  MaxChunks = 2
VIEW View
CONSTRAINT Bound
INVARIANTS Inv StepOK AbsInv EmitState
PROPERTIES AbsRefines
CHECK_DEADLOCK FALSE
