SPECIFICATION Spec
CONSTANTS
  Thorough = FALSE
  Emit = TRUE
  N = 3
  MaxPending = 16
  MaxPages = 1
  MaxChunks = 2
VIEW View
CONSTRAINT Bound
INVARIANTS Inv Isolation EmitState
CHECK_DEADLOCK FALSE
