SPECIFICATION Spec
CONSTANTS
  CallName = "send_pages"
  Alphabet = "small"
  Me = 3
  Other = 4
  TypeName = "Max3000Side90x7"
  MaxQueries = 4
  Emit = FALSE
INVARIANTS TypeOK TransfersOK C11OK EmitScript
CHECK_DEADLOCK FALSE
