------------------------------- MODULE MC_Ctl -------------------------------
(* C09/C10/C11 on the model: every controller operation against a bus that  *)
(* may answer anything from the reply alphabet at every step.  Behaviours   *)
(* are trees (the conversation is part of the state), so every reply script *)
(* is enumerated to the natural end of the operation; each complete script  *)
(* is emitted (mode G) and the reference-free monitors run on every prefix. *)
EXTENDS Controller, TLC, Json

CONSTANTS CallName,      \* which operation this run enumerates
          Alphabet,      \* "full" | "small"
          Me, Other,     \* own and foreign address
          TypeName,      \* the controller's sign type
          MaxQueries,    \* bound on state queries within one show/load call
          Emit

Pg(n, seed) == [k \in 1..n |-> (k * 7 + seed) % 256]

\* item lists for send_pages: sizes in chunks <>, <1>, <2>, <1,2>, <3,1,2>, and (model only) a ragged last chunk
PageLists == IF Alphabet = "full"
             THEN {<<>>, <<Pg(16, 1)>>, <<Pg(32, 2)>>, <<Pg(16, 3), Pg(32, 4)>>}
             ELSE {<<>>, <<Pg(16, 1)>>, <<Pg(16, 3), Pg(32, 4)>>, <<Pg(48, 5), Pg(16, 6), Pg(32, 7)>>, <<Pg(21, 8)>>, <<Pg(16, 9), <<>>, Pg(5, 10)>>}

ItemsFor(name) == IF name = "send_pages" THEN PageLists
                  ELSE IF name \in {"configure", "configure_if_needed"} THEN {<<Block(TypeName)>>}
                  ELSE {<<>>}

FullReplies ==
       { ReportState(a, st) : a \in {Me, Other}, st \in States }
  \cup { AckOperation(a, op) : a \in {Me, Other}, op \in Operations }
  \cup { NoReply, Goodbye(Me), Unknown(MkFrame(Me, 9, <<1>>)), BusErr }
  \* a bus may hand over an Unknown wrapper around any frame: an own-address state report with a code the table does not list, and
  \* wrappers around the bytes of the very report / acknowledgement that would be welcome at that point (never to be unwrapped)
  \cup { Unknown(MkFrame(Me, 4, <<14>>)), Unknown(MkFrame(Me, 4, <<StateCode["PixelsReceived"]>>)), Unknown(MkFrame(Me, 4, <<StateCode["ConfigReceived"]>>)),
         Unknown(MkFrame(Me, 4, <<StateCode["PageLoaded"]>>)), Unknown(MkFrame(Me, 4, <<StateCode["PageShown"]>>)),
         Unknown(MkFrame(Me, 4, <<StateCode["ConfigFailed"], 0>>)) }

SmallReplies ==
       { ReportState(Me, st) : st \in {"Unconfigured", "ReadyToReset", "ConfigReceived", "ConfigFailed", "PixelsReceived",
                                        "PixelsFailed", "ShowingPages", "PageLoaded"} }
  \cup { ReportState(Other, "Unconfigured"), ReportState(Other, "ConfigReceived") }
  \cup { AckOperation(Me, op) : op \in {"ReceiveConfig", "ReceivePixels", "StartReset", "FinishReset"} }
  \cup { AckOperation(Other, "ReceiveConfig"), NoReply, BusErr }

Replies == IF Alphabet = "full" THEN FullReplies ELSE SmallReplies
\* the reply to the first message of a call always ranges over the full alphabet (an operation's entry decision is a match
\* over many states: each of them is a case of its own); the small alphabet only thins the later steps
RepliesAt(lg) == IF lg = <<>> THEN FullReplies ELSE Replies

VARIABLES c, log, mon
vars == <<c, log, mon>>

Init == /\ c \in { Call(Me, CallName, items) : items \in ItemsFor(CallName) }
        /\ log = <<>>
        /\ mon = Mon0

Queries == Cardinality({ n \in 1..Len(log) : log[n].m.k = "QueryState" })
\* replies that keep a show/load call polling
KeepsPolling(r) == r.k = "ReportState" /\ r.a = Me /\ r.s \in {"PageLoadInProgress", "PageShowInProgress", SwTrigger(c.call)}

Next ==
    /\ Running(c)
    /\ \E r \in RepliesAt(log) :
        /\ (c.pc = "sw_query" /\ Queries + 1 >= MaxQueries => ~KeepsPolling(r))
        /\ c' = Recv(c, r)
        /\ log' = Append(log, [m |-> CMsg(c), r |-> r])
        /\ mon' = LET m2 == XferMon(mon, c.me, XferOp(c.call), c.items, CMsg(c), r)
                  IN  IF Running(c') THEN m2
                      ELSE XferMonReturn(m2, c.call, c'.out, Cardinality({ n \in 1..Len(log') : log'[n].m.k = "DataChunksSent" }))
Spec == Init /\ [][Next]_vars

\* C09 on every explored conversation
TransfersOK == mon.ph # "bad"
\* C11 on every explored conversation (prefix and, when finished, with the outcome)
C11OK == IF Running(c) THEN C11Log(log, Me, c.call) ELSE C11Return(log, Me, c.call, c.out)
\* the machine is well-formed
TypeOK == c.out \in {"", "Ok", "Ok:Automatic", "Ok:Manual", "ProtocolError", "BusError"} /\ (c.pc = "done") = (c.out # "")

EmitScript == (Emit /\ ~Running(c)) =>
    PrintT(<<"GEN", ToJson([call |-> c.call, me |-> c.me, typ |-> TypeName, items |-> c.items, script |-> log, out |-> c.out])>>)
CountDone == ~Running(c) => PrintT(<<"CNT", 1>>)
=============================================================================
