------------------------------ MODULE MC_Live -------------------------------
(* Liveness of the composed system (beyond the listed properties): whatever *)
(* state earlier traffic left the virtual sign in, every controller call    *)
(* that is started terminates, provided exchanges keep happening (weak      *)
(* fairness on Exchange).  In particular the polling loop of show/load-next *)
(* cannot spin forever against a sign that follows VirtualSign.tla, because *)
(* an in-progress state completes after being reported once.                *)
(* Checked under SPECIFICATION with fairness and no state constraint on the *)
(* controller phase (the chaos phase is bounded by its alphabet only).      *)
EXTENDS MC_System

\* the chaos step without the witness history (liveness checking cannot use VIEW)
LChaos == /\ phase = "chaos"
          /\ \E i \in 1..Len(Alpha) : s' = Step(s, Alpha[i]).s
          /\ UNCHANGED <<hist, phase, c, ncalls, before>>
LNext == LChaos \/ TakeOver \/ Exchange \/ NextCall
LiveSpec == SInit /\ [][LNext]_svars /\ WF_svars(Exchange)

\* every started call eventually returns
CallsTerminate == [](phase = "ctl" /\ c.pc # "idle" => <>(c.pc = "done"))
=============================================================================
