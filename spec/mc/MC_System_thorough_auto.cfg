SPECIFICATION SSpec
CONSTANTS
  Thorough = TRUE
  Emit = FALSE
  Flip = "Automatic"
  MaxPending = 48
  MaxPages = 2
  MaxChunks = 4
  CtlType = "tiny"
  MaxCalls = 4
VIEW SView
CONSTRAINT Bound
INVARIANTS Post SInv
CHECK_DEADLOCK FALSE
