SPECIFICATION Spec
CONSTANTS
  Thorough = TRUE
INVARIANTS OneFrameOut ReadsIffDue OneLineIn NeverInvented Pacing SetupRule
CHECK_DEADLOCK FALSE
