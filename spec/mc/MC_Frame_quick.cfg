SPECIFICATION Spec
CONSTANTS
  Thorough = FALSE
  Emit = TRUE
INVARIANTS Shape Sum0 RoundTrip RoundTripNL NLisCRLF WellF LenBound EmitVec
CHECK_DEADLOCK FALSE
