----------------------------- MODULE MC_Message -----------------------------
(* C04 on the model: over all 256 types x all 256 first bytes x lengths     *)
(* {0,1,2,3,16,255} x several addresses, Frame->Message->Frame is the       *)
(* identity, recognition is exactly table membership, the address is        *)
(* carried over, and the table is injective.  Emits {f, m} vectors.         *)
EXTENDS Message, TLC, Json

CONSTANTS Thorough, Emit

Addrs == IF Thorough THEN {0, 3, 65535} ELSE {4660}
Lens  == IF Thorough THEN {0, 1, 2, 3, 16, 255} ELSE {0, 1, 2, 16}
TypesX == IF Thorough THEN 0..255 ELSE (0..8) \cup {85, 127, 128, 145, 161, 255}
FirstX == 0..255

DataOf(len, b) == [i \in 1..len |-> IF i = 1 THEN b ELSE (i * 31) % 256]

\* two levels so that TLC's workers share the enumeration: one initial state per message type, whose successors are the frames
VARIABLES t, f
NoFrame == MkFrame(0, 0, <<>>)
FramesOfType(ty) ==
    UNION { { MkFrame(a, ty, DataOf(n, b)) : a \in Addrs, b \in (IF n = 0 THEN {0} ELSE IF n = 255 THEN {0, 1, 85, 149, 161, 255} ELSE FirstX) } : n \in Lens }
Init == t \in TypesX /\ f = NoFrame
Next == f = NoFrame /\ f' \in FramesOfType(t) /\ UNCHANGED t
Spec == Init /\ [][Next]_<<t, f>>

m == FrameToMsg(f)
n0 == Len(f.data)
b0 == IF n0 >= 1 THEN f.data[1] ELSE 0

Identity   == MsgToFrame(m) = f
Recognised == Specific(m) = InTable(f.type, n0, b0)
AddrKept   == m.a = f.addr
UnknownIsWrapper == ~Specific(m) => m = Unknown(f)

\* table sanity (constant-level): 13 + 6 + 6 codes, pairwise distinct within each type
TableInjective ==
    /\ Cardinality({StateCode[st] : st \in States}) = 13
    /\ Cardinality({ReqCode[op] : op \in Operations}) = 6
    /\ Cardinality({AckCode[op] : op \in Operations}) = 6
    /\ Cardinality(States) = 13 /\ Cardinality(Operations) = 6

EmitVec == (Emit /\ (Thorough => (f.addr = 3 \/ Specific(m)))) => PrintT(<<"GEN", ToJson([f |-> f, m |-> m])>>)
=============================================================================
