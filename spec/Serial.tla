------------------------------- MODULE Serial -------------------------------
(***************************************************************************)
(* The serial transport: the serial sign bus, the ODK bridge, port setup.  *)
(*                                                                         *)
(* SerialBus: one process_message(m) call on a port whose receive side     *)
(* holds the byte string rx:                                               *)
(*   writes exactly MsgWireNL(m); sleeps DelayAfterSend(m); then, iff      *)
(*   ResponseExpected(m), reads exactly one line and returns its decoding  *)
(*   (sleeping DelayAfterReceive(reply) first); any I/O failure or an      *)
(*   undecodable line is an error.                                         *)
(* Odk bridge: one process_message() call reads one line from the port,    *)
(*   decodes it, hands the message to the bus and writes the bus's reply   *)
(*   back iff there is one; an undecodable line is a communication error   *)
(*   and the bus is not touched.                                           *)
(***************************************************************************)
EXTENDS Stream, Bus

ErrReply == Msg("Err", 0, "", 0, <<>>)

\* result of decoding a reply line
LineToReply(line) == LET d == Decode(line) IN IF d.kind = "ok" THEN FrameToMsg(FrameOf(d)) ELSE ErrReply

\* SerialBus!ProcessMessage without faults: [tx, consumed, res, sleep]
PM(m, rx) ==
    IF ResponseExpected(m)
    THEN LET line == LineFrom(rx, 0)
             rep == IF line = <<>> THEN ErrReply ELSE LineToReply(line)     \* nothing to read: time-out
         IN  [tx |-> MsgWireNL(m), consumed |-> Len(line), res |-> rep,
              sleep |-> DelayAfterSend(m) + (IF rep.k = "Err" THEN 0 ELSE DelayAfterReceive(rep))]
    ELSE [tx |-> MsgWireNL(m), consumed |-> 0, res |-> NoReply, sleep |-> DelayAfterSend(m)]

\* Odk!ProcessMessage on a line: [called, msg, reply, wrote, res]
Bridge(signs, line) ==
    LET d == Decode(line) IN
    IF d.kind # "ok" THEN [called |-> FALSE, msg |-> NoReply, signs |-> signs, reply |-> NoReply, wrote |-> <<>>, res |-> "comm"]
    ELSE LET m == FrameToMsg(FrameOf(d))
             x == BusStep(signs, m)
         IN  [called |-> TRUE, msg |-> m, signs |-> x.signs, reply |-> x.r,
              wrote |-> IF x.r = NoReply THEN <<>> ELSE MsgWireNL(x.r), res |-> "ok"]

\* one controller message over the full serial path: serial bus -> wire -> bridge -> virtual bus and back
WireStep(signs, m) ==
    LET b == Bridge(signs, MsgWireNL(m))
        back == PM(m, b.wrote)
    IN  [signs |-> b.signs, r |-> IF back.res.k = "Err" THEN BusErr ELSE back.res, leftover |-> Len(b.wrote) - back.consumed]

(***************************************************************************)
(* Port setup                                                              *)
(***************************************************************************)
Bauds == {"110", "300", "600", "1200", "2400", "4800", "9600", "19200", "38400", "57600", "115200", "other:250000", "other:1", "other:19200", "other:4294986496"}
CharSizes == {"5", "6", "7", "8"}
Parities == {"none", "odd", "even"}
StopBitsS == {"1", "2"}
Flows == {"none", "software", "hardware"}
Settings == [baud : Bauds, bits : CharSizes, parity : Parities, stop : StopBitsS, flow : Flows]
Target == [baud |-> "19200", bits |-> "8", parity |-> "none", stop |-> "1", flow |-> "none"]
FailPoints == {"none", "read_settings", "set_baud_rate", "write_settings", "set_timeout"}

\* effect of configuring a port that had settings `prior`, with a failure injected at `fail`
Setup(prior, fail) ==
    IF fail \in {"read_settings", "set_baud_rate"} THEN [res |-> "err", port |-> prior, timeout |-> FALSE]
    ELSE IF fail = "write_settings" THEN [res |-> "err", port |-> prior, timeout |-> FALSE]
    ELSE IF fail = "set_timeout" THEN [res |-> "err", port |-> Target, timeout |-> FALSE]
    ELSE [res |-> "ok", port |-> Target, timeout |-> TRUE]

\* C20 on an outcome
SetupOK(out, anyFailed) ==
    /\ (out.res = "ok" => out.port = Target /\ out.timeout)
    /\ (anyFailed => out.res = "err")
    /\ (~anyFailed => out.res = "ok")
=============================================================================
