------------------------------ MODULE Message ------------------------------
(***************************************************************************)
(* The protocol code table: which frames are which messages.               *)
(*                                                                         *)
(* A message is a uniform record [k, a, s, t, d]:                          *)
(*   k  kind            a  address / offset / chunk count (16 bit)         *)
(*   s  state or operation name ("" if none)                               *)
(*   t  raw message type (only for Unknown)   d  data bytes                *)
(***************************************************************************)
EXTENDS Frame

States == {"Unconfigured", "ConfigInProgress", "ConfigReceived", "ConfigFailed",
           "PixelsInProgress", "PixelsReceived", "PixelsFailed",
           "PageLoaded", "PageLoadInProgress", "PageShown", "PageShowInProgress",
           "ShowingPages", "ReadyToReset"}

Operations == {"ReceiveConfig", "ReceivePixels", "ShowLoadedPage", "LoadNextPage",
               "StartReset", "FinishReset"}

\* state reports: message type 4
StateCode == [ Unconfigured       |-> 15,   \* 0F
               ConfigInProgress   |-> 13,   \* 0D
               ConfigReceived     |-> 7,    \* 07
               ConfigFailed       |-> 12,   \* 0C
               PixelsInProgress   |-> 3,    \* 03
               PixelsReceived     |-> 1,    \* 01
               PixelsFailed       |-> 11,   \* 0B
               PageLoaded         |-> 16,   \* 10
               PageLoadInProgress |-> 19,   \* 13
               PageShown          |-> 18,   \* 12
               PageShowInProgress |-> 17,   \* 11
               ShowingPages       |-> 0,    \* 00
               ReadyToReset       |-> 8 ]   \* 08

\* operation requests: message type 3
ReqCode == [ ReceiveConfig  |-> 161,   \* A1
             ReceivePixels  |-> 162,   \* A2
             ShowLoadedPage |-> 169,   \* A9
             LoadNextPage   |-> 170,   \* AA
             StartReset     |-> 166,   \* A6
             FinishReset    |-> 167 ]  \* A7

\* operation acknowledgements: message type 5
AckCode == [ ReceiveConfig  |-> 149,   \* 95
             ReceivePixels  |-> 145,   \* 91
             ShowLoadedPage |-> 150,   \* 96
             LoadNextPage   |-> 151,   \* 97
             StartReset     |-> 147,   \* 93
             FinishReset    |-> 148 ]  \* 94

Msg(k, a, s, t, d) == [k |-> k, a |-> a, s |-> s, t |-> t, d |-> d]

SendData(off, d)        == Msg("SendData", off, "", 0, d)
DataChunksSent(n)       == Msg("DataChunksSent", n, "", 0, <<>>)
Hello(a)                == Msg("Hello", a, "", 0, <<>>)
QueryState(a)           == Msg("QueryState", a, "", 0, <<>>)
Goodbye(a)              == Msg("Goodbye", a, "", 0, <<>>)
PixelsComplete(a)       == Msg("PixelsComplete", a, "", 0, <<>>)
ReportState(a, st)      == Msg("ReportState", a, st, 0, <<>>)
RequestOperation(a, op) == Msg("RequestOperation", a, op, 0, <<>>)
AckOperation(a, op)     == Msg("AckOperation", a, op, 0, <<>>)
Unknown(f)              == Msg("Unknown", f.addr, "", f.type, f.data)

\* what a bus can hand back besides a message: nothing, or an error
NoReply == Msg("None", 0, "", 0, <<>>)
BusErr  == Msg("BusError", 0, "", 0, <<>>)

Specific(m) == m.k # "Unknown"

\* Is (type, length, first byte) an entry of the protocol table?
InTable(t, len, b) ==
    \/ t = 0
    \/ t = 1 /\ len = 0
    \/ t = 2 /\ len = 1 /\ b \in {255, 0, 85}
    \/ t = 3 /\ len = 1 /\ \E op \in Operations : ReqCode[op] = b
    \/ t = 5 /\ len = 1 /\ \E op \in Operations : AckCode[op] = b
    \/ t = 4 /\ len = 1 /\ \E st \in States : StateCode[st] = b
    \/ t = 6 /\ len = 1 /\ b = 0

FrameToMsg(f) ==
    LET n == Len(f.data)
        b == IF n >= 1 THEN f.data[1] ELSE 0
    IN  CASE f.type = 0 -> SendData(f.addr, f.data)
          [] f.type = 1 /\ n = 0 -> DataChunksSent(f.addr)
          [] f.type = 2 /\ n = 1 /\ b = 255 -> Hello(f.addr)
          [] f.type = 2 /\ n = 1 /\ b = 0 -> QueryState(f.addr)
          [] f.type = 2 /\ n = 1 /\ b = 85 -> Goodbye(f.addr)
          [] f.type = 3 /\ n = 1 /\ (\E op \in Operations : ReqCode[op] = b)
                -> RequestOperation(f.addr, CHOOSE op \in Operations : ReqCode[op] = b)
          [] f.type = 5 /\ n = 1 /\ (\E op \in Operations : AckCode[op] = b)
                -> AckOperation(f.addr, CHOOSE op \in Operations : AckCode[op] = b)
          [] f.type = 4 /\ n = 1 /\ (\E st \in States : StateCode[st] = b)
                -> ReportState(f.addr, CHOOSE st \in States : StateCode[st] = b)
          [] f.type = 6 /\ n = 1 /\ b = 0 -> PixelsComplete(f.addr)
          [] OTHER -> Unknown(f)

MsgToFrame(m) ==
    CASE m.k = "SendData"         -> MkFrame(m.a, 0, m.d)
      [] m.k = "DataChunksSent"   -> MkFrame(m.a, 1, <<>>)
      [] m.k = "Hello"            -> MkFrame(m.a, 2, <<255>>)
      [] m.k = "QueryState"       -> MkFrame(m.a, 2, <<0>>)
      [] m.k = "Goodbye"          -> MkFrame(m.a, 2, <<85>>)
      [] m.k = "RequestOperation" -> MkFrame(m.a, 3, <<ReqCode[m.s]>>)
      [] m.k = "AckOperation"     -> MkFrame(m.a, 5, <<AckCode[m.s]>>)
      [] m.k = "ReportState"      -> MkFrame(m.a, 4, <<StateCode[m.s]>>)
      [] m.k = "PixelsComplete"   -> MkFrame(m.a, 6, <<0>>)
      [] m.k = "Unknown"          -> MkFrame(m.a, m.t, m.d)

\* Wire encodings of a message
MsgWire(m)   == Encode(MsgToFrame(m))
MsgWireNL(m) == EncodeNL(MsgToFrame(m))

(***************************************************************************)
(* Serial-bus classification of messages (C16, C18)                        *)
(***************************************************************************)
ResponseExpected(m) == m.k \in {"Hello", "QueryState", "RequestOperation"}
DelayAfterSend(m)   == IF m.k = "SendData" THEN 30 ELSE 0            \* ms
DelayAfterReceive(r) == IF r.k = "ReportState" /\ r.s \in {"PageLoadInProgress", "PageShowInProgress"}
                        THEN 100 ELSE 0

\* The set of specific messages over given parameter sets (for bounded checks)
SpecificMsgs(As, Ds) ==
       { SendData(a, d) : a \in As, d \in Ds }
  \cup { DataChunksSent(a) : a \in As }
  \cup { Hello(a) : a \in As } \cup { QueryState(a) : a \in As }
  \cup { Goodbye(a) : a \in As } \cup { PixelsComplete(a) : a \in As }
  \cup { ReportState(a, st) : a \in As, st \in States }
  \cup { RequestOperation(a, op) : a \in As, op \in Operations }
  \cup { AckOperation(a, op) : a \in As, op \in Operations }
=============================================================================
