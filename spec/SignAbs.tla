------------------------------ MODULE SignAbs -------------------------------
(***************************************************************************)
(* The virtual sign with its data abstracted to sizes: state name, chunk   *)
(* counter, number of buffered bytes, number of stored pages, "a usable    *)
(* size is configured".  VirtualSign.tla refines it (checked by TLC:       *)
(* MC_VSign!AbsRefines, every step of the concrete model is a step of      *)
(* this one under the mapping given there), and its invariants are         *)
(* INDUCTIVE - checked by Apalache for unbounded counters and lengths:     *)
(*   apalache-mc check --init=Init    --inv=IndInv --length=0 SignAbs.tla  *)
(*   apalache-mc check --init=IndInit --inv=IndInv --length=1 SignAbs.tla  *)
(* so PendingOnlyWhen / CounterZeroOutsideTransfer / ConfigPhaseNoPages /  *)
(* BlankWhenUnconfigured hold for every history, not only within the       *)
(* bounds of MC_VSign.                                                     *)
(***************************************************************************)
EXTENDS Integers

VARIABLES
    \* @type: Str;
    st,
    \* @type: Int;
    chunks,
    \* @type: Int;
    pend,
    \* @type: Int;
    npages,
    \* @type: Bool;
    cfgd

vars == <<st, chunks, pend, npages, cfgd>>

AStates == {"Unconfigured", "ConfigInProgress", "ConfigReceived", "ConfigFailed",
            "PixelsInProgress", "PixelsReceived", "PixelsFailed",
            "PageLoaded", "PageLoadInProgress", "PageShown", "PageShowInProgress",
            "ShowingPages", "ReadyToReset"}
AOps == {"ReceiveConfig", "ReceivePixels", "ShowLoadedPage", "LoadNextPage", "StartReset", "FinishReset"}

ALegal(op) ==
    IF op = "ReceiveConfig" THEN {"Unconfigured", "ConfigFailed"}
    ELSE IF op = "ReceivePixels" THEN {"ConfigReceived", "PixelsFailed", "PageLoaded", "PageLoadInProgress",
                                       "PageShown", "PageShowInProgress", "ShowingPages"}
    ELSE IF op = "ShowLoadedPage" THEN {"PageLoaded"}
    ELSE IF op = "LoadNextPage" THEN {"PageShown"}
    ELSE IF op = "StartReset" THEN AStates
    ELSE {"ReadyToReset"}

AReceiving == st \in {"ConfigInProgress", "PixelsInProgress"}

Init == st = "Unconfigured" /\ chunks = 0 /\ pend = 0 /\ npages = 0 /\ cfgd = FALSE

ABlank == st' = "Unconfigured" /\ chunks' = 0 /\ pend' = 0 /\ npages' = 0 /\ cfgd' = FALSE

\* the buffered bytes become a page only when a usable size is configured (and they are exactly one page: left open here)
AFlush(p2, n2) ==
    IF pend = 0 THEN p2 = 0 /\ n2 = npages
    ELSE p2 = 0 /\ (n2 = npages \/ (cfgd /\ n2 = npages + 1))

AQuery ==
    /\ st' = (IF st = "PageLoadInProgress" THEN "PageLoaded" ELSE IF st = "PageShowInProgress" THEN "PageShown" ELSE st)
    /\ UNCHANGED <<chunks, pend, npages, cfgd>>

ARequest(op) ==
    /\ st \in ALegal(op)
    /\ \/ op = "ReceiveConfig" /\ st' = "ConfigInProgress" /\ UNCHANGED <<chunks, pend, npages, cfgd>>
       \/ op = "ReceivePixels" /\ st' = "PixelsInProgress" /\ npages' = 0 /\ UNCHANGED <<chunks, pend, cfgd>>
       \/ op = "ShowLoadedPage" /\ st' = "PageShowInProgress" /\ UNCHANGED <<chunks, pend, npages, cfgd>>
       \/ op = "LoadNextPage" /\ st' = "PageLoadInProgress" /\ UNCHANGED <<chunks, pend, npages, cfgd>>
       \/ op = "StartReset" /\ st' = "ReadyToReset" /\ UNCHANGED <<chunks, pend, npages, cfgd>>
       \/ op = "FinishReset" /\ ABlank

\* a configuration block of a known family: size replaced, counted
AConfigData ==
    /\ st = "ConfigInProgress"
    /\ cfgd' \in BOOLEAN
    /\ chunks' = (chunks + 1) % 65536
    /\ UNCHANGED <<st, pend, npages>>

\* a data chunk of len bytes during a pixel transfer; atZero: its offset is 0 (a page boundary)
APixelData(len, atZero) ==
    /\ st = "PixelsInProgress"
    /\ \E p2 \in {0, pend}, n2 \in {npages, npages + 1} :
          /\ IF atZero THEN AFlush(p2, n2) ELSE (p2 = pend /\ n2 = npages)
          /\ pend' = p2 + len /\ npages' = n2
    /\ chunks' = (chunks + 1) % 65536
    /\ UNCHANGED <<st, cfgd>>

\* the announced count either equals the counter or it does not (all that matters about it)
ACount(good) ==
    /\ AReceiving
    /\ \E p2 \in {0, pend}, n2 \in {npages, npages + 1} :
          AFlush(p2, n2) /\ pend' = p2 /\ npages' = n2
    /\ st' = (IF st = "ConfigInProgress" THEN (IF good THEN "ConfigReceived" ELSE "ConfigFailed")
              ELSE (IF good THEN "PixelsReceived" ELSE "PixelsFailed"))
    /\ chunks' = 0
    /\ UNCHANGED cfgd

APixelsComplete ==
    /\ st = "PixelsReceived"
    /\ st' \in {"ShowingPages", "PageLoaded"}
    /\ UNCHANGED <<chunks, pend, npages, cfgd>>

Next ==
    \/ AQuery
    \/ \E op \in AOps : ARequest(op)
    \/ AConfigData
    \/ (st = "PixelsInProgress" /\ \E len \in 0..255, z \in BOOLEAN : APixelData(len, z))
    \/ (AReceiving /\ \E good \in BOOLEAN : ACount(good))
    \/ APixelsComplete
    \/ ABlank
    \/ UNCHANGED vars                       \* everything else: silent and unchanged

Spec == Init /\ [][Next]_vars

TypeOK == st \in AStates /\ chunks \in 0..65535 /\ pend \in Nat /\ npages \in Nat /\ cfgd \in BOOLEAN

APendingOnlyWhen == pend # 0 => st \in {"PixelsInProgress", "ReadyToReset"}
ACounterZeroOutsideTransfer == chunks # 0 => st \in {"ConfigInProgress", "PixelsInProgress", "ReadyToReset"}
ABlankWhenUnconfigured == st = "Unconfigured" => (chunks = 0 /\ pend = 0 /\ npages = 0 /\ ~cfgd)
APagesOnlyAfterConfig == npages # 0 => cfgd
\* the configured size can only change while no page is stored (so stored pages always have the configured size)
AConfigPhaseNoPages == st \in {"Unconfigured", "ConfigInProgress", "ConfigFailed"} => npages = 0

IndInv == TypeOK /\ APendingOnlyWhen /\ ACounterZeroOutsideTransfer /\ ABlankWhenUnconfigured
          /\ APagesOnlyAfterConfig /\ AConfigPhaseNoPages
IndInit == IndInv
\* control: without AConfigPhaseNoPages the rest is NOT inductive (Apalache must find the counterexample)
WeakInv == TypeOK /\ APendingOnlyWhen /\ ACounterZeroOutsideTransfer /\ ABlankWhenUnconfigured /\ APagesOnlyAfterConfig
=============================================================================
