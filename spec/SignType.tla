------------------------------ MODULE SignType ------------------------------
(***************************************************************************)
(* The supported sign types and their 16-byte configuration blocks.        *)
(*                                                                         *)
(* Max3000: 04 ID 00 ?? H W1 W2 W3 W4 B 00 00 00 00 00 00                  *)
(*          H = height, W1+W2+W3+W4 = width, B = bits per column (8 | 16)  *)
(* Horizon: 08 ID 00 ?? ?? H 00 W A1 A2 B1 B2 ?? 00 00 00                  *)
(*          H = height, W = width = A1*B1 + A2*B2                          *)
(* (1-based indices below: byte k of the diagram is block[k+1].)           *)
(***************************************************************************)
EXTENDS Bytes

TypeNames == {"Max3000Front112x16", "Max3000Front98x16", "Max3000Side90x7", "Max3000Rear30x10",
              "Max3000Rear23x10", "Max3000Dash30x7", "HorizonFront160x16", "HorizonFront140x16",
              "HorizonSide96x8", "HorizonRear48x16", "HorizonDash40x12"}

TypeTable ==
  [ Max3000Front112x16 |-> [w |-> 112, h |-> 16, block |-> <<4, 71, 0, 15, 16, 28, 28, 28, 28, 16, 0, 0, 0, 0, 0, 0>>],
    Max3000Front98x16  |-> [w |-> 98,  h |-> 16, block |-> <<4, 77, 0, 13, 16, 14, 28, 28, 28, 16, 0, 0, 0, 0, 0, 0>>],
    Max3000Side90x7    |-> [w |-> 90,  h |-> 7,  block |-> <<4, 32, 0, 6, 7, 30, 30, 30, 0, 8, 0, 0, 0, 0, 0, 0>>],
    Max3000Rear30x10   |-> [w |-> 30,  h |-> 10, block |-> <<4, 98, 0, 4, 10, 30, 0, 0, 0, 16, 0, 0, 0, 0, 0, 0>>],
    Max3000Rear23x10   |-> [w |-> 23,  h |-> 10, block |-> <<4, 97, 0, 4, 10, 23, 0, 0, 0, 16, 0, 0, 0, 0, 0, 0>>],
    Max3000Dash30x7    |-> [w |-> 30,  h |-> 7,  block |-> <<4, 38, 0, 3, 7, 30, 0, 0, 0, 8, 0, 0, 0, 0, 0, 0>>],
    HorizonFront160x16 |-> [w |-> 160, h |-> 16, block |-> <<8, 177, 0, 21, 12, 16, 0, 160, 4, 0, 40, 0, 0, 0, 0, 0>>],
    HorizonFront140x16 |-> [w |-> 140, h |-> 16, block |-> <<8, 178, 0, 18, 4, 16, 0, 140, 1, 3, 20, 40, 0, 0, 0, 0>>],
    HorizonSide96x8    |-> [w |-> 96,  h |-> 8,  block |-> <<8, 180, 0, 7, 12, 8, 0, 96, 2, 0, 48, 0, 0, 0, 0, 0>>],
    HorizonRear48x16   |-> [w |-> 48,  h |-> 16, block |-> <<8, 181, 0, 7, 12, 16, 0, 48, 1, 0, 48, 0, 0, 0, 0, 0>>],
    HorizonDash40x12   |-> [w |-> 40,  h |-> 12, block |-> <<8, 185, 0, 6, 140, 12, 0, 40, 1, 0, 40, 0, 4, 0, 0, 0>>] ]

Block(t) == TypeTable[t].block
Dim(t)   == <<TypeTable[t].w, TypeTable[t].h>>

\* fields of an arbitrary 16-byte block
Family(b) == b[1]
TypeId(b) == b[2]
BlockHeight(b) == IF b[1] = 4 THEN b[5] ELSE b[6]
BlockWidth(b)  == IF b[1] = 4 THEN b[6] + b[7] + b[8] + b[9] ELSE b[8]
HorizonPanels(b) == b[9] * b[11] + b[10] * b[12]
BitsPerColumn(b) == b[10]                       \* Max3000 only

SupportedIds == { <<Block(t)[1], Block(t)[2]>> : t \in TypeNames }

\* SignType::from_bytes: result is a type name, "WrongConfigLength" or "UnknownConfig"
TypeFromBytes(b) ==
    IF Len(b) # 16 THEN "WrongConfigLength"
    ELSE IF <<b[1], b[2]>> \in SupportedIds
         THEN CHOOSE t \in TypeNames : Block(t)[1] = b[1] /\ Block(t)[2] = b[2]
         ELSE "UnknownConfig"

\* The self-consistency relations of C19 for one (block, w, h)
BlockConsistent(b, w, h) ==
    /\ Len(b) = 16
    /\ b[1] \in {4, 8}
    /\ BlockHeight(b) = h
    /\ BlockWidth(b) = w
    /\ (b[1] = 8 => HorizonPanels(b) = w)
    /\ (b[1] = 4 => BitsPerColumn(b) = 8 * ((h + 7) \div 8))
=============================================================================
