-------------------------------- MODULE Page --------------------------------
(***************************************************************************)
(* Pages in the sign's native layout.                                      *)
(*                                                                         *)
(*   [id, 16, 0, 0] ++ width * ceil(height/8) data bytes ++ 0xFF padding   *)
(*   up to the next multiple of 16.  Pixel (x, y) lives in byte            *)
(*   4 + x*ceil(height/8) + y div 8 (0-based), bit y mod 8, LSB on top.    *)
(*                                                                         *)
(* A page value is a record [w, h, bytes]; bytes is 1-based in TLA+, so    *)
(* the 0-based byte index k of the documentation is bytes[k + 1].          *)
(***************************************************************************)
EXTENDS Bytes

HeaderLen == 4
BytesPerColumn(h) == (h + 7) \div 8
DataBytes(w, h)   == HeaderLen + w * BytesPerColumn(h)
TotalBytes(w, h)  == ((DataBytes(w, h) + 15) \div 16) * 16

MkPage(w, h, bytes) == [w |-> w, h |-> h, bytes |-> bytes]

NewBytes(id, w, h) ==
    [k \in 1..TotalBytes(w, h) |->
        IF k = 1 THEN id ELSE IF k = 2 THEN 16 ELSE IF k <= HeaderLen THEN 0
        ELSE IF k <= DataBytes(w, h) THEN 0 ELSE 255]
NewPage(id, w, h) == MkPage(w, h, NewBytes(id, w, h))

\* Page::from_bytes succeeds exactly when the length is the padded size
FromBytesOk(w, h, len) == len = TotalBytes(w, h)

InBounds(w, h, x, y) == x < w /\ y < h

\* 0-based byte index and bit index of pixel (x, y)
ByteIndex(h, x, y) == HeaderLen + x * BytesPerColumn(h) + y \div 8
BitIndex(y) == y % 8

Pow2(n) == IF n = 0 THEN 1 ELSE IF n = 1 THEN 2 ELSE IF n = 2 THEN 4 ELSE IF n = 3 THEN 8
           ELSE IF n = 4 THEN 16 ELSE IF n = 5 THEN 32 ELSE IF n = 6 THEN 64 ELSE 128
BitOf(byte, n) == (byte \div Pow2(n)) % 2

GetPixel(p, x, y) == BitOf(p.bytes[ByteIndex(p.h, x, y) + 1], BitIndex(y)) = 1

SetBit(byte, n, v) == IF v THEN (IF BitOf(byte, n) = 1 THEN byte ELSE byte + Pow2(n))
                           ELSE (IF BitOf(byte, n) = 1 THEN byte - Pow2(n) ELSE byte)

SetPixel(p, x, y, v) ==
    [p EXCEPT !.bytes[ByteIndex(p.h, x, y) + 1] = SetBit(@, BitIndex(y), v)]

\* set_all_pixels as implemented: every data byte becomes 0xFF / 0x00
SetAll(p, v) ==
    [p EXCEPT !.bytes = [k \in 1..Len(p.bytes) |->
        IF k > HeaderLen /\ k <= DataBytes(p.w, p.h) THEN (IF v THEN 255 ELSE 0) ELSE p.bytes[k]]]

PageId(p) == p.bytes[1]

\* the pixel matrix as a function, for projections
Pixels(p) == [x \in 0..(p.w - 1) |-> [y \in 0..(p.h - 1) |-> GetPixel(p, x, y)]]
Header(p) == SubSeq(p.bytes, 1, HeaderLen)
Padding(p) == SubSeq(p.bytes, DataBytes(p.w, p.h) + 1, Len(p.bytes))

(***************************************************************************)
(* Relations stated by C06 between a page before (p) and after (q) a call. *)
(***************************************************************************)
SameFrame(p, q) == /\ q.w = p.w /\ q.h = p.h /\ Len(q.bytes) = Len(p.bytes)
                   /\ Header(q) = Header(p) /\ Padding(q) = Padding(p)

\* set_pixel(x, y, v): target reads v, the image differs at most in the target bit
SetPixelRel(p, q, x, y, v) ==
    /\ SameFrame(p, q)
    /\ GetPixel(q, x, y) = v
    /\ \A k \in 1..Len(p.bytes) :
          IF k = ByteIndex(p.h, x, y) + 1
          THEN \A n \in 0..7 : n # BitIndex(y) => BitOf(q.bytes[k], n) = BitOf(p.bytes[k], n)
          ELSE q.bytes[k] = p.bytes[k]

\* set_all_pixels(v): every pixel reads v; header and padding unchanged.  The unused high bits of a
\* column (height not a multiple of 8) are left unconstrained: the property does not speak about them.
SetAllRel(p, q, v) ==
    /\ SameFrame(p, q)
    /\ \A x \in 0..(p.w - 1) : \A y \in 0..(p.h - 1) : GetPixel(q, x, y) = v
=============================================================================
