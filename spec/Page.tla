-------------------------------- MODULE Page --------------------------------
(***************************************************************************)
(* Pages in the sign's native layout.                                      *)
(*                                                                         *)
(*   [id, 16, 0, 0] ++ width * ceil(height/8) data bytes ++ 0xFF padding   *)
(*   up to the next multiple of 16.  Pixel (x, y) lives in byte            *)
(*   4 + x*ceil(height/8) + y div 8 (0-based), bit y mod 8, LSB on top.    *)
(*                                                                         *)
(* A page value is a record [w, h, bytes]; bytes is 1-based in TLA+, so    *)
(* the 0-based byte index k of the documentation is bytes[k + 1].          *)
(***************************************************************************)
EXTENDS Bytes

HeaderLen == 4
BytesPerColumn(h) == (h + 7) \div 8
DataBytes(w, h)   == HeaderLen + w * BytesPerColumn(h)
TotalBytes(w, h)  == ((DataBytes(w, h) + 15) \div 16) * 16

\* The same two quantities for pages beyond TLC's 32-bit integers (the library computes them in a 64-bit usize): the padded
\* length counted in 16-byte chunks, and a byte index as a pair <<hi, lo>> meaning hi * 65536 + lo.  Valid while the page is
\* smaller than 2^34 bytes and a column shorter than 2^14 bytes; MC_Layout checks that they agree with the definitions above
\* wherever both apply.
WideChunks(w, h) == LET bpc == BytesPerColumn(h) IN w * (bpc \div 16) + (w * (bpc % 16) + HeaderLen + 15) \div 16
WideIndex(h, x, y) == LET bpc == BytesPerColumn(h)
                          raw == (x % 65536) * bpc + HeaderLen + y \div 8
                      IN <<(x \div 65536) * bpc + raw \div 65536, raw % 65536>>

\* Heights beyond TLC's integers (up to 2^32 - 1) are given as hq = h \div 8 and hr = h % 8, rows likewise as yq = y \div 8.
TallBPC(hq, hr) == hq + (IF hr > 0 THEN 1 ELSE 0)
TallChunks(w, hq, hr) == LET bpc == TallBPC(hq, hr) IN w * (bpc \div 16) + (w * (bpc % 16) + HeaderLen + 15) \div 16
TallDataEnd(w, hq, hr) == LET raw == w * TallBPC(hq, hr) + HeaderLen IN <<raw \div 65536, raw % 65536>>     \* w <= 3
TallIndex(hq, hr, x, yq) == LET raw == x * TallBPC(hq, hr) + HeaderLen + yq IN <<raw \div 65536, raw % 65536>>  \* x <= 2

MkPage(w, h, bytes) == [w |-> w, h |-> h, bytes |-> bytes]

NewBytes(id, w, h) ==
    [k \in 1..TotalBytes(w, h) |->
        IF k = 1 THEN id ELSE IF k = 2 THEN 16 ELSE IF k <= HeaderLen THEN 0
        ELSE IF k <= DataBytes(w, h) THEN 0 ELSE 255]
NewPage(id, w, h) == MkPage(w, h, NewBytes(id, w, h))

\* Page::from_bytes succeeds exactly when the length is the padded size
FromBytesOk(w, h, len) == len = TotalBytes(w, h)

InBounds(w, h, x, y) == x < w /\ y < h

\* 0-based byte index and bit index of pixel (x, y)
ByteIndex(h, x, y) == HeaderLen + x * BytesPerColumn(h) + y \div 8
BitIndex(y) == y % 8

Pow2(n) == IF n = 0 THEN 1 ELSE IF n = 1 THEN 2 ELSE IF n = 2 THEN 4 ELSE IF n = 3 THEN 8
           ELSE IF n = 4 THEN 16 ELSE IF n = 5 THEN 32 ELSE IF n = 6 THEN 64 ELSE 128
BitOf(byte, n) == (byte \div Pow2(n)) % 2

GetPixel(p, x, y) == BitOf(p.bytes[ByteIndex(p.h, x, y) + 1], BitIndex(y)) = 1

SetBit(byte, n, v) == IF v THEN (IF BitOf(byte, n) = 1 THEN byte ELSE byte + Pow2(n))
                           ELSE (IF BitOf(byte, n) = 1 THEN byte - Pow2(n) ELSE byte)

SetPixel(p, x, y, v) ==
    [p EXCEPT !.bytes[ByteIndex(p.h, x, y) + 1] = SetBit(@, BitIndex(y), v)]

\* set_all_pixels as implemented: every data byte becomes 0xFF / 0x00
SetAll(p, v) ==
    [p EXCEPT !.bytes = [k \in 1..Len(p.bytes) |->
        IF k > HeaderLen /\ k <= DataBytes(p.w, p.h) THEN (IF v THEN 255 ELSE 0) ELSE p.bytes[k]]]

PageId(p) == p.bytes[1]

\* the pixel matrix as a function, for projections
Pixels(p) == [x \in 0..(p.w - 1) |-> [y \in 0..(p.h - 1) |-> GetPixel(p, x, y)]]
Header(p) == SubSeq(p.bytes, 1, HeaderLen)
Padding(p) == SubSeq(p.bytes, DataBytes(p.w, p.h) + 1, Len(p.bytes))

(***************************************************************************)
(* Operations of the page API as a total function of (page, op).           *)
(* op = [k, x, y, v]: k = "set" | "get" | "setall".  Out-of-bounds         *)
(* coordinates panic and leave the page unchanged.                         *)
(***************************************************************************)
Op(k, x, y, v) == [k |-> k, x |-> x, y |-> y, v |-> v]
Apply(p, op) ==
    CASE op.k = "setall" -> [p |-> SetAll(p, op.v), res |-> "ok"]
      [] op.k = "set" -> IF InBounds(p.w, p.h, op.x, op.y) THEN [p |-> SetPixel(p, op.x, op.y, op.v), res |-> "ok"]
                         ELSE [p |-> p, res |-> "panic"]
      [] op.k = "get" -> IF InBounds(p.w, p.h, op.x, op.y) THEN [p |-> p, res |-> IF GetPixel(p, op.x, op.y) THEN "true" ELSE "false"]
                         ELSE [p |-> p, res |-> "panic"]

\* the pixel matrix as sequences (column x+1, row y+1), for JSON projections
\* pixels as 0 / 1 (a recorded 2 stands for 'reading this pixel panicked')
Bit(v) == IF v THEN 1 ELSE 0
PixelSeq(p) == [x \in 1..p.w |-> [y \in 1..p.h |-> Bit(GetPixel(p, x - 1, y - 1))]]
\* what C06 speaks about: dimensions, id, length, header, padding and what every pixel reads
PageObs(p) == [w |-> p.w, h |-> p.h, id |-> PageId(p), len |-> Len(p.bytes), header |-> Header(p), padding |-> Padding(p), px |-> PixelSeq(p)]

(***************************************************************************)
(* Relations stated by C06 between a page before (p) and after (q) a call. *)
(***************************************************************************)
SameFrame(p, q) == /\ q.w = p.w /\ q.h = p.h /\ Len(q.bytes) = Len(p.bytes)
                   /\ Header(q) = Header(p) /\ Padding(q) = Padding(p)

\* set_pixel(x, y, v): target reads v, the image differs at most in the target bit
SetPixelRel(p, q, x, y, v) ==
    /\ SameFrame(p, q)
    /\ GetPixel(q, x, y) = v
    /\ \A k \in 1..Len(p.bytes) :
          IF k = ByteIndex(p.h, x, y) + 1
          THEN \A n \in 0..7 : n # BitIndex(y) => BitOf(q.bytes[k], n) = BitOf(p.bytes[k], n)
          ELSE q.bytes[k] = p.bytes[k]

\* set_all_pixels(v): every pixel reads v; header and padding unchanged.  The unused high bits of a
\* column (height not a multiple of 8) are left unconstrained: the property does not speak about them.
SetAllRel(p, q, v) ==
    /\ SameFrame(p, q)
    /\ \A x \in 0..(p.w - 1) : \A y \in 0..(p.h - 1) : GetPixel(q, x, y) = v

(***************************************************************************)
(* The same relations on observations (PageObs-shaped records o, o2), so   *)
(* that recorded behaviour can be judged without assuming the byte layout: *)
(* px is what get_pixel actually returned for every coordinate.            *)
(***************************************************************************)
ObsSameFrame(o, o2) == /\ o2.w = o.w /\ o2.h = o.h /\ o2.id = o.id /\ o2.len = o.len
                       /\ o2.header = o.header /\ o2.padding = o.padding
ObsSetPixel(o, o2, x, y, v) ==
    /\ ObsSameFrame(o, o2)
    /\ o2.px[x + 1][y + 1] = Bit(v)
    /\ \A i \in 1..o.w : \A k \in 1..o.h : (i # x + 1 \/ k # y + 1) => o2.px[i][k] = o.px[i][k]
ObsSetAll(o, o2, v) ==
    /\ ObsSameFrame(o, o2)
    /\ \A i \in 1..o.w : \A k \in 1..o.h : o2.px[i][k] = Bit(v)
=============================================================================
