---------------------------- MODULE VirtualSign -----------------------------
(***************************************************************************)
(* The sign-side protocol state machine, as documented for the virtual     *)
(* sign: what a sign replies to each message and how its state, type and   *)
(* stored pages evolve.  One sign is a record                              *)
(*   [addr, flip, st, pages, pending, chunks, w, h, typ]                   *)
(*   flip    "Manual" | "Automatic"                                        *)
(*   pages   sequence of page records [w, h, bytes]                        *)
(*   pending bytes buffered for the page being received                    *)
(*   chunks  data chunks accepted in the current transfer (mod 2^16)       *)
(*   typ     a sign-type name or "None"                                    *)
(* Step(s, m) is total: every message in every state has a defined effect. *)
(***************************************************************************)
EXTENDS Message, SignType, Page

NewSign(addr, flip) ==
    [addr |-> addr, flip |-> flip, st |-> "Unconfigured", pages |-> <<>>, pending |-> <<>>,
     chunks |-> 0, w |-> 0, h |-> 0, typ |-> "None"]

\* reset and goodbye: back to the blank, unconfigured condition
Blank(s) == NewSign(s.addr, s.flip)

Receiving(s) == s.st \in {"ConfigInProgress", "PixelsInProgress"}

\* states in which each operation is legal
LegalStates(op) ==
    CASE op = "ReceiveConfig"  -> {"Unconfigured", "ConfigFailed"}
      [] op = "ReceivePixels"  -> {"ConfigReceived", "PixelsFailed", "PageLoaded", "PageLoadInProgress",
                                   "PageShown", "PageShowInProgress", "ShowingPages"}
      [] op = "ShowLoadedPage" -> {"PageLoaded"}
      [] op = "LoadNextPage"   -> {"PageShown"}
      [] op = "StartReset"     -> States
      [] op = "FinishReset"    -> {"ReadyToReset"}

\* the buffered bytes become a stored page iff they are exactly one page of the configured size
Flush(s) ==
    IF s.pending = <<>> THEN s
    ELSE IF s.w > 0 /\ s.h > 0 /\ Len(s.pending) = TotalBytes(s.w, s.h)
         THEN [s EXCEPT !.pages = Append(@, MkPage(s.w, s.h, s.pending)), !.pending = <<>>]
         ELSE [s EXCEPT !.pending = <<>>]

Inc16(n) == (n + 1) % 65536

IsConfigBlock(s, off, d) == s.st = "ConfigInProgress" /\ off = 0 /\ Len(d) = 16

TypOf(d) == LET t == TypeFromBytes(d) IN IF t \in TypeNames THEN t ELSE "None"

OnData(s, off, d) ==
    IF IsConfigBlock(s, off, d)
    THEN IF d[1] \in {4, 8}
         THEN [s EXCEPT !.w = BlockWidth(d), !.h = BlockHeight(d), !.typ = TypOf(d), !.chunks = Inc16(@)]
         ELSE s                                   \* unknown family: ignored, not counted
    ELSE IF s.st = "PixelsInProgress"
         THEN LET f == IF off = 0 THEN Flush(s) ELSE s
              IN  [f EXCEPT !.pending = @ \o d, !.chunks = Inc16(@)]
         ELSE s

OnCount(s, n) ==
    IF ~Receiving(s) THEN s
    ELSE LET good == s.chunks = n
             st2 == IF s.st = "ConfigInProgress"
                    THEN (IF good THEN "ConfigReceived" ELSE "ConfigFailed")
                    ELSE (IF good THEN "PixelsReceived" ELSE "PixelsFailed")
         IN  [Flush(s) EXCEPT !.st = st2, !.chunks = 0]

OnQuery(s) ==
    [s |-> [s EXCEPT !.st = IF @ = "PageLoadInProgress" THEN "PageLoaded"
                            ELSE IF @ = "PageShowInProgress" THEN "PageShown" ELSE @],
     r |-> ReportState(s.addr, s.st)]

OnRequest(s, op) ==
    IF s.st \notin LegalStates(op) THEN [s |-> s, r |-> NoReply]
    ELSE [r |-> AckOperation(s.addr, op),
          s |-> CASE op = "ReceiveConfig"  -> [s EXCEPT !.st = "ConfigInProgress"]
                  [] op = "ReceivePixels"  -> [s EXCEPT !.st = "PixelsInProgress", !.pages = <<>>]
                  [] op = "ShowLoadedPage" -> [s EXCEPT !.st = "PageShowInProgress"]
                  [] op = "LoadNextPage"   -> [s EXCEPT !.st = "PageLoadInProgress"]
                  [] op = "StartReset"     -> [s EXCEPT !.st = "ReadyToReset"]
                  [] op = "FinishReset"    -> Blank(s)]

OnPixelsComplete(s) ==
    IF s.st = "PixelsReceived"
    THEN [s EXCEPT !.st = IF s.flip = "Automatic" THEN "ShowingPages" ELSE "PageLoaded"]
    ELSE s

Step(s, m) ==
    CASE m.k \in {"Hello", "QueryState"} /\ m.a = s.addr -> OnQuery(s)
      [] m.k = "RequestOperation" /\ m.a = s.addr -> OnRequest(s, m.s)
      [] m.k = "SendData" -> [s |-> OnData(s, m.a, m.d), r |-> NoReply]
      [] m.k = "DataChunksSent" -> [s |-> OnCount(s, m.a), r |-> NoReply]
      [] m.k = "PixelsComplete" /\ m.a = s.addr -> [s |-> OnPixelsComplete(s), r |-> NoReply]
      [] m.k = "Goodbye" /\ m.a = s.addr -> [s |-> Blank(s), r |-> NoReply]
      [] OTHER -> [s |-> s, r |-> NoReply]

\* What the public accessors expose: state(), sign_type(), pages() (width, height, bytes of each)
SignObs(s) == [st |-> s.st, typ |-> s.typ, pages |-> s.pages]

(***************************************************************************)
(* Invariants of the design (checked by TLC on the bounded model)          *)
(***************************************************************************)
PagesComplete(s) == \A i \in 1..Len(s.pages) :
    LET p == s.pages[i] IN p.w = s.w /\ p.h = s.h /\ p.w > 0 /\ p.h > 0 /\ Len(p.bytes) = TotalBytes(p.w, p.h)
PendingOnlyWhen(s) == s.pending # <<>> => s.st \in {"PixelsInProgress", "ReadyToReset"}
CounterZeroOutsideTransfer(s) == s.chunks # 0 => s.st \in {"ConfigInProgress", "PixelsInProgress", "ReadyToReset"}
BlankWhenUnconfigured(s) == s.st = "Unconfigured" => s = Blank(s)
PagesOnlyAfterConfig(s) == s.pages # <<>> => s.w > 0 /\ s.h > 0
TypeMatchesDims(s) == s.typ # "None" => <<s.w, s.h>> = Dim(s.typ)

(***************************************************************************)
(* The documented behaviour as properties of one step (C13, C12)           *)
(***************************************************************************)
StepProps(s, m) ==
    LET x == Step(s, m) IN
    \* hello/query of the own address: report the pre-state, in-progress completes
    /\ (m.k \in {"Hello", "QueryState"} /\ m.a = s.addr =>
            /\ x.r = ReportState(s.addr, s.st)
            /\ x.s.st = (IF s.st = "PageLoadInProgress" THEN "PageLoaded"
                         ELSE IF s.st = "PageShowInProgress" THEN "PageShown" ELSE s.st)
            /\ SignObs(x.s).pages = SignObs(s).pages /\ x.s.typ = s.typ)
    \* requests: acknowledged exactly in the legal states, otherwise silent and unchanged
    /\ (m.k = "RequestOperation" /\ m.a = s.addr =>
            IF s.st \in LegalStates(m.s) THEN x.r = AckOperation(s.addr, m.s)
            ELSE x.r = NoReply /\ x.s = s)
    \* messages addressed to somebody else: silent and unchanged
    /\ (m.k \in {"Hello", "QueryState", "RequestOperation", "PixelsComplete", "Goodbye"} /\ m.a # s.addr =>
            x.r = NoReply /\ x.s = s)
    \* data messages never reply; they matter only while receiving
    /\ (m.k \in {"SendData", "DataChunksSent"} => x.r = NoReply /\ (~Receiving(s) => x.s = s))
    \* the count decides received / failed
    /\ (m.k = "DataChunksSent" /\ s.st = "PixelsInProgress" =>
            x.s.st = (IF s.chunks = m.a THEN "PixelsReceived" ELSE "PixelsFailed"))
    /\ (m.k = "DataChunksSent" /\ s.st = "ConfigInProgress" =>
            x.s.st = (IF s.chunks = m.a THEN "ConfigReceived" ELSE "ConfigFailed"))
    \* reset and goodbye
    /\ (m.k = "Goodbye" /\ m.a = s.addr => x.s = Blank(s))
    /\ (m.k = "RequestOperation" /\ m.a = s.addr /\ m.s = "FinishReset" /\ s.st = "ReadyToReset" => x.s = Blank(s))
    \* replies never come from unknown frames or sign-originated messages
    /\ (m.k \in {"ReportState", "AckOperation", "Unknown"} => x.r = NoReply /\ x.s = s)
=============================================================================
