-------------------------------- MODULE Bus ---------------------------------
(***************************************************************************)
(* A bus of virtual signs: the message is offered to each sign in order    *)
(* until one of them replies; that reply is the bus's reply.               *)
(***************************************************************************)
EXTENDS VirtualSign

Stepped(signs, m) == [i \in 1..Len(signs) |-> Step(signs[i], m)]

\* index of the first sign that replies, 0 if none does
FirstReply(signs, m) ==
    LET st == Stepped(signs, m)
        R == { i \in 1..Len(signs) : st[i].r # NoReply }
    IN  IF R = {} THEN 0 ELSE CHOOSE i \in R : \A j \in R : i <= j

BusStep(signs, m) ==
    LET st == Stepped(signs, m)
        k == FirstReply(signs, m)
    IN  [signs |-> [i \in 1..Len(signs) |-> IF k = 0 \/ i <= k THEN st[i].s ELSE signs[i]],
         r |-> IF k = 0 THEN NoReply ELSE st[k].r]

DistinctAddrs(signs) == \A i, j \in 1..Len(signs) : i # j => signs[i].addr # signs[j].addr

BusObs(signs) == [i \in 1..Len(signs) |-> SignObs(signs[i])]

Addressed(m) == m.k \in {"Hello", "QueryState", "RequestOperation", "PixelsComplete", "Goodbye",
                         "ReportState", "AckOperation"}

(***************************************************************************)
(* C14 as properties of one bus step                                       *)
(***************************************************************************)
\* addressed message: other signs unchanged; reply carries the addressee's address and is what it alone
\* would have replied; nobody addressed => no reply, nothing changes
AddressedIsolation(signs, m) ==
    LET x == BusStep(signs, m) IN
    (m.k \in {"Hello", "QueryState", "RequestOperation", "PixelsComplete", "Goodbye"}) =>
        /\ \A i \in 1..Len(signs) : signs[i].addr # m.a => SignObs(x.signs[i]) = SignObs(signs[i])
        /\ (x.r # NoReply => x.r.a = m.a)
        /\ \A i \in 1..Len(signs) : signs[i].addr = m.a =>
               x.r = Step(signs[i], m).r /\ SignObs(x.signs[i]) = SignObs(Step(signs[i], m).s)
        /\ ((\A i \in 1..Len(signs) : signs[i].addr # m.a) => x.r = NoReply /\ BusObs(x.signs) = BusObs(signs))

\* unaddressed data messages affect only signs that are currently receiving
UnaddressedOnlyReceiving(signs, m) ==
    LET x == BusStep(signs, m) IN
    (m.k \in {"SendData", "DataChunksSent"}) =>
        /\ x.r = NoReply
        /\ \A i \in 1..Len(signs) : ~Receiving(signs[i]) => SignObs(x.signs[i]) = SignObs(signs[i])
=============================================================================
