------------------------------- MODULE Bytes -------------------------------
(***************************************************************************)
(* Byte strings as sequences of naturals 0..255, hexadecimal text, and the *)
(* longitudinal redundancy check used by the Luminator wire format.        *)
(* Everything here is plain arithmetic; no module of the implementation is *)
(* consulted.                                                              *)
(***************************************************************************)
EXTENDS Naturals, Sequences, FiniteSets, SequencesExt

Byte == 0..255
Word == 0..65535

IsByteSeq(s) == \A i \in 1..Len(s) : s[i] \in Byte

\* ASCII codes
Colon == 58
CR    == 13
LF    == 10

\* "0123456789ABCDEF"
UpperDigits == <<48, 49, 50, 51, 52, 53, 54, 55, 56, 57, 65, 66, 67, 68, 69, 70>>

HexChar(n) == UpperDigits[n + 1]            \* n \in 0..15
HexPair(b) == <<HexChar(b \div 16), HexChar(b % 16)>>

IsUpperHex(c) == c \in 48..57 \/ c \in 65..70
IsLowerHexLetter(c) == c \in 97..102
IsHex(c) == IsUpperHex(c) \/ IsLowerHexLetter(c)

HexVal(c) == IF c \in 48..57 THEN c - 48
             ELSE IF c \in 65..70 THEN c - 55
             ELSE c - 87                     \* 'a'..'f'

PairVal(hi, lo) == 16 * HexVal(hi) + HexVal(lo)

\* Upper-case a character / a string (only a..f are affected, as for hex text).
UpperC(c) == IF IsLowerHexLetter(c) THEN c - 32 ELSE c
Upper(s) == [i \in 1..Len(s) |-> UpperC(s[i])]

SumSeq(s) == FoldLeft(LAMBDA acc, x : acc + x, 0, s)

\* Longitudinal redundancy check: the byte that makes the total 0 mod 256.
LRC(s) == (256 - (SumSeq(s) % 256)) % 256

\* Hex text of a byte sequence: two upper-case digits per byte.
HexText(p) == [i \in 1..(2 * Len(p)) |->
                 IF i % 2 = 1 THEN HexChar(p[(i + 1) \div 2] \div 16)
                              ELSE HexChar(p[i \div 2] % 16)]

\* Strip exactly one trailing CR LF, if present.
StripNL(s) == IF Len(s) >= 2 /\ s[Len(s) - 1] = CR /\ s[Len(s)] = LF
              THEN SubSeq(s, 1, Len(s) - 2) ELSE s

\* Cut a sequence into consecutive chunks of at most n elements.
NumChunks(s, n) == (Len(s) + n - 1) \div n
Chunk(s, n, j) == SubSeq(s, n * (j - 1) + 1, IF n * j < Len(s) THEN n * j ELSE Len(s))
Chunks(s, n) == [j \in 1..NumChunks(s, n) |-> Chunk(s, n, j)]

\* Concatenation of a sequence of sequences.
Flatten(ss) == FoldLeft(LAMBDA acc, x : acc \o x, <<>>, ss)

MinN(a, b) == IF a < b THEN a ELSE b
MaxN(a, b) == IF a > b THEN a ELSE b
=============================================================================
