---------------------------- MODULE Trace_Codec ----------------------------
(***************************************************************************)
(* Trace validation for C01-C05.  Each event records what the real code    *)
(* returned for one input; the event is explained only if every recorded   *)
(* value equals what Frame.tla / Message.tla say, and the property-level   *)
(* predicates hold on the recorded values themselves.                      *)
(*                                                                         *)
(* State: l (cursor) and, for C02, the valid encoding currently being      *)
(* damaged (cur) and its frame (curf).                                     *)
(***************************************************************************)
EXTENDS Message, TraceBase

VARIABLES l, cur, curf
vars == <<l, cur, curf>>

NoFrame == MkFrame(0, 0, <<>>)

Init == l = 1 /\ cur = <<>> /\ curf = NoFrame

E == Rec[l]
IsEvent(name) == l <= NRec /\ E.e = name /\ l' = l + 1

\* ---- C01 -----------------------------------------------------------------
FrameEvent ==
    /\ IsEvent("frame")
    /\ LET f == MkFrame(E.addr, E.type, E.data) IN
        /\ IsFrame(f)
        /\ E.getters = TRUE
        /\ E.enc = Encode(f)                       \* conformance with the documented shape
        /\ E.encnl = EncodeNL(f)
        /\ ShapeOK(f, E.enc)                       \* the property, on the observed bytes
        /\ SumZero(E.enc)
        /\ E.encnl = E.enc \o <<CR, LF>>
        /\ E.dec = Ok(f) /\ E.deceq = TRUE         \* decoding either encoding gives back f
        /\ E.decnl = Ok(f) /\ E.decnleq = TRUE
    /\ UNCHANGED <<cur, curf>>

TryNewEvent ==
    /\ IsEvent("trynew")
    /\ [res |-> E.res, max |-> E.max, actual |-> E.actual] = TryNewData(E.len)
    /\ (E.res = "ok" => E.kept = E.len)
    /\ UNCHANGED <<cur, curf>>

\* ---- C02 -----------------------------------------------------------------
\* the valid encoding is produced by the harness's own reference encoder (checked here against the documented shape),
\* so that C02 judges the decoder only; what the real decoder says about the undamaged string is C01's business
ValidEvent ==
    /\ IsEvent("valid")
    /\ LET f == MkFrame(E.addr, E.type, E.data) IN
        /\ E.enc = (IF E.nl THEN EncodeNL(f) ELSE Encode(f))
        /\ cur' = E.enc
        /\ curf' = f

Damaged(op, i, c) ==
    CASE op = "subst"  -> Subst(cur, i, c)
      [] op = "del"    -> Delete(cur, i)
      [] op = "dup"    -> Dup(cur, i)
      [] op = "swap"   -> Swap(cur, i)
      [] op = "prefix" -> Prefix(cur, i)

DamageEvent ==
    /\ IsEvent("damage")
    /\ LET s == Damaged(E.op, E.i, E.c) IN
        /\ E.res.kind # "panic"
        /\ DamageSafe(curf, E.res)                 \* the property: an error, or exactly the original frame
        \* a string whose declared length disagrees with its data, or whose checksum does not match, is never accepted
        /\ (E.res.kind = "ok" => Decode(s).kind \notin {"mismatch", "badsum"})
        \* the same when the damaged bytes are decoded through the stream entry point (which takes the first line)
        /\ E.res_read.kind # "panic" /\ DamageSafe(curf, E.res_read)
    /\ UNCHANGED <<cur, curf>>

\* arbitrary hex text with an inconsistent length field or checksum (not only single-character damage): never accepted
AcceptEvent ==
    /\ IsEvent("accept")
    /\ E.res.kind # "panic"
    /\ (E.res.kind = "ok" => Decode(E.s).kind \notin {"mismatch", "badsum"})
    /\ UNCHANGED <<cur, curf>>

\* ---- C03 -----------------------------------------------------------------
DecodeEvent ==
    /\ IsEvent("decode")
    /\ LET r == Decode(E.s) IN
        /\ E.res = r
        /\ (r.kind = "ok") = (Wellformed(E.s) /\ E.res.kind \notin {"mismatch", "badsum"})
        /\ (r.kind = "invalid") = ~Wellformed(E.s)
        /\ (r.kind = "ok" => E.reenc = Upper(StripNL(E.s)) /\ E.reenc = Encode(FrameOf(r)))
    /\ UNCHANGED <<cur, curf>>

\* ---- C04 -----------------------------------------------------------------
F2MEvent ==
    /\ IsEvent("f2m")
    /\ LET f == MkFrame(E.addr, E.type, E.data)
           n == Len(E.data)
           b == IF n >= 1 THEN E.data[1] ELSE 0
       IN
        /\ E.msg = FrameToMsg(f)                            \* follows the code table
        /\ E.back = f /\ E.backeq = TRUE                    \* frame -> message -> frame is the identity
        /\ Specific(E.msg) = InTable(f.type, n, b)          \* recognised exactly when in the table
        /\ E.msg.a = f.addr                                 \* address carried over
        /\ (~Specific(E.msg) => E.msg = Unknown(f))
    /\ UNCHANGED <<cur, curf>>

\* ---- C05 -----------------------------------------------------------------
\* C05 is about the round trip only (which wire bytes are used is C01/C04's business); two different messages cannot
\* share a wire encoding if each of them comes back from its own
M2WEvent ==
    /\ IsEvent("m2w")
    /\ Specific(E.msg)
    /\ E.back = E.msg /\ E.backeq = TRUE
    /\ UNCHANGED <<cur, curf>>

Next == FrameEvent \/ TryNewEvent \/ ValidEvent \/ DamageEvent \/ AcceptEvent \/ DecodeEvent \/ F2MEvent \/ M2WEvent
Spec == Init /\ [][Next]_vars
=============================================================================
