----------------------------- MODULE Trace_Page -----------------------------
(***************************************************************************)
(* Validation of recorded page behaviour.                                  *)
(* C06 events (a page and a sequence of operations on it):                 *)
(*   page {borrowed, obs}       obs = projection through the public API    *)
(*   op   {op, res, obs}        op = [k, x, y, v], res = ok|panic|true|false*)
(* judged by the C06 relations on observations (what get_pixel returned).  *)
(* C07 events (layout):                                                    *)
(*   new       {id, w, h, bytes, rid, rw, rh}                              *)
(*   set1      {w, h, x, y, changed, panic, reads}   on a fresh page       *)
(*   frombytes {w, h, len, res, expected, actual, same_bytes, equals_producer} *)
(*   frombytes_wide {w, h, len_c, len_r, res, exp_c, exp_r, act_c, act_r}   *)
(*             sizes of 4 GiB and more: lengths as (chunks of 16, rest)    *)
(*   set1_wide {w, h, x, y, changed: <<hi, lo, value>>.., panic, reads}    *)
(*   tall_new / tall_frombytes / tall_set1: the same for heights up to     *)
(*             2^32 - 1, given as hq = h div 8, hr = h mod 8 (yq = y div 8)*)
(***************************************************************************)
EXTENDS Page, TraceBase

VARIABLES l, o
vars == <<l, o>>

NoObs == [w |-> 0, h |-> 0, id |-> 0, len |-> 0, header |-> <<>>, padding |-> <<>>, px |-> <<>>]
Init == l = 1 /\ o = NoObs

E == Rec[l]
IsEvent(name) == l <= NRec /\ E.e = name /\ l' = l + 1

PageEv == IsEvent("page") /\ o' = E.obs

In(x, y) == x < o.w /\ y < o.h

OpEv ==
    /\ IsEvent("op")
    /\ LET op == E.op IN
       CASE op.k = "setall" -> E.res = "ok" /\ ObsSetAll(o, E.obs, op.v)
         [] op.k = "set" /\ In(op.x, op.y) -> E.res = "ok" /\ ObsSetPixel(o, E.obs, op.x, op.y, op.v)
         [] op.k = "get" /\ In(op.x, op.y) -> E.res = (IF o.px[op.x + 1][op.y + 1] = 1 THEN "true" ELSE "false") /\ E.obs = o
         [] OTHER -> E.res = "panic" /\ E.obs = o          \* out of bounds: panics, touches nothing
    /\ o' = E.obs

\* huge pages: bytes that changed, header/padding preserved, and before/after readings [x, y, before, after] of a probe set
OneBit(a, b) == \E n \in 0..7 : BitOf(a, n) # BitOf(b, n) /\ \A k \in 0..7 : k # n => BitOf(a, k) = BitOf(b, k)
SparseEv ==
    /\ IsEvent("sparse")
    /\ LET op == E.op
           inb == op.x < E.w /\ op.y < E.h
           P == E.probes
           IsTarget(q) == q[1] = op.x /\ q[2] = op.y
       IN
       /\ E.len_same /\ E.hdr_same /\ E.pad_same                       \* length, header and padding never change
       /\ \A i \in 1..Len(P) : P[i][3] \in {0, 1} /\ P[i][4] \in {0, 1}  \* in-bounds reads never panic
       /\ CASE op.k = "setall" -> E.res = "ok" /\ \A i \in 1..Len(P) : P[i][4] = Bit(op.v)
            [] op.k = "set" /\ inb ->
                  /\ E.res = "ok"
                  /\ \A i \in 1..Len(P) : IF IsTarget(P[i]) THEN P[i][4] = Bit(op.v) ELSE P[i][4] = P[i][3]
                  /\ E.nchanged <= 1                                    \* at most one byte, and in it one bit, changes
                  /\ (E.nchanged = 1 => OneBit(E.changed[1][2], E.changed[1][3]))
                  /\ (E.nchanged = 1) = (\E i \in 1..Len(P) : IsTarget(P[i]) /\ P[i][3] # Bit(op.v))
            [] op.k = "get" /\ inb ->
                  /\ E.nchanged = 0 /\ \A i \in 1..Len(P) : P[i][4] = P[i][3]
                  /\ \E i \in 1..Len(P) : IsTarget(P[i]) /\ E.res = (IF P[i][3] = 1 THEN "true" ELSE "false")
            [] OTHER -> E.res = "panic" /\ E.nchanged = 0 /\ \A i \in 1..Len(P) : P[i][4] = P[i][3]
    /\ UNCHANGED o

NewEv == /\ IsEvent("new")
         /\ E.bytes = NewBytes(E.id, E.w, E.h)
         /\ E.rid = E.id /\ E.rw = E.w /\ E.rh = E.h
         /\ UNCHANGED o

\* a huge fresh page, summarised: length, header, no non-zero data byte, padding all 0xFF
NewSumEv == /\ IsEvent("newsum")
            /\ E.panic = FALSE
            /\ E.len = TotalBytes(E.w, E.h)
            /\ E.header = <<E.id, 16, 0, 0>>
            /\ E.data_nonzero = 0 /\ E.pad_ok = TRUE
            /\ E.rw = E.w /\ E.rh = E.h
            /\ UNCHANGED o

Set1Ev == /\ IsEvent("set1")
          /\ E.panic = FALSE
          /\ E.changed = << <<ByteIndex(E.h, E.x, E.y), Pow2(E.y % 8)>> >>
          /\ E.reads = TRUE
          /\ UNCHANGED o

FromBytesEv ==
    /\ IsEvent("frombytes")
    /\ IF FromBytesOk(E.w, E.h, E.len)
       THEN E.res = "ok" /\ E.same_bytes = TRUE /\ E.equals_producer = TRUE
       ELSE E.res = "wronglength" /\ E.expected = TotalBytes(E.w, E.h) /\ E.actual = E.len
    /\ UNCHANGED o

\* pages whose size exceeds 32 bits: the dimensions alone decide, whatever length is offered
FromBytesWideEv ==
    /\ IsEvent("frombytes_wide")
    /\ IF E.len_c = WideChunks(E.w, E.h) /\ E.len_r = 0
       THEN E.res = "ok"
       ELSE /\ E.res = "wronglength" /\ E.exp_c = WideChunks(E.w, E.h) /\ E.exp_r = 0
            /\ E.act_c = E.len_c /\ E.act_r = E.len_r
    /\ UNCHANGED o

Set1WideEv == /\ IsEvent("set1_wide")
              /\ E.panic = FALSE
              /\ LET wi == WideIndex(E.h, E.x, E.y) IN E.changed = << <<wi[1], wi[2], Pow2(E.y % 8)>> >>
              /\ E.reads = TRUE
              /\ UNCHANGED o

TallNewEv == /\ IsEvent("tall_new")
             /\ E.panic = FALSE
             /\ E.len_c = TallChunks(E.w, E.hq, E.hr) /\ E.len_r = 0
             /\ E.header = <<E.id, 16, 0, 0>>
             \* the first byte after the header that is not zero is the first byte of the 0xFF padding (if there is padding)
             /\ LET e == TallDataEnd(E.w, E.hq, E.hr) IN
                  IF e[1] * 4096 + e[2] \div 16 = E.len_c /\ e[2] % 16 = 0 THEN E.first_nonzero = <<-1, -1, 0>>
                  ELSE E.first_nonzero = <<e[1], e[2], 255>>
             /\ UNCHANGED o

TallFromBytesEv ==
    /\ IsEvent("tall_frombytes")
    /\ IF E.len_c = TallChunks(E.w, E.hq, E.hr) /\ E.len_r = 0
       THEN E.res = "ok"
       ELSE /\ E.res = "wronglength" /\ E.exp_c = TallChunks(E.w, E.hq, E.hr) /\ E.exp_r = 0
            /\ E.act_c = E.len_c /\ E.act_r = E.len_r
    /\ UNCHANGED o

TallSet1Ev == /\ IsEvent("tall_set1")
              /\ E.panic = FALSE
              /\ LET t == TallIndex(E.hq, E.hr, E.x, E.yq) IN E.changed = << <<t[1], t[2], Pow2(E.yr)>> >>
              /\ E.reads = TRUE
              /\ UNCHANGED o

Next == TallNewEv \/ TallFromBytesEv \/ TallSet1Ev \/ FromBytesWideEv \/ Set1WideEv \/ PageEv \/ OpEv \/ SparseEv \/ NewSumEv \/ NewEv \/ Set1Ev \/ FromBytesEv
Spec == Init /\ [][Next]_vars
=============================================================================
