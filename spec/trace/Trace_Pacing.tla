---------------------------- MODULE Trace_Pacing ----------------------------
(***************************************************************************)
(* C18: pacing of the serial bus, on time stamps (microseconds, monotonic  *)
(* clock) taken at the port's write/read boundaries.                       *)
(*   pm {m, t}, pw {t0, t1}, pr {ret, t0, t1}, pmret {res, t}, end         *)
(* Lower bounds are required on every paced exchange:                      *)
(*   the first write of the message after a data chunk starts >= 30 ms     *)
(*   after the chunk's last write ended; the call returns >= 100 ms after  *)
(*   an in-progress report was read.                                       *)
(* For everything else the minimum over the repeated trials must stay      *)
(* below the pacing delay (so that scheduler noise cannot raise an alarm). *)
(***************************************************************************)
EXTENDS Message, TraceBase, FiniteSets

SendGap == 30000
RecvGap == 100000

VARIABLES l, cur, prevKind, lastW, lastR, first, gotReply, minSend, minRecv
vars == <<l, cur, prevKind, lastW, lastR, first, gotReply, minSend, minRecv>>

Init == l = 1 /\ cur = NoReply /\ prevKind = "" /\ lastW = 0 /\ lastR = 0 /\ first = TRUE /\ gotReply = FALSE
        /\ minSend = <<>> /\ minRecv = <<>>

E == Rec[l]
IsEvent(name) == l <= NRec /\ E.e = name /\ l' = l + 1

Upd(f, k, v) == [x \in DOMAIN f \cup {k} |-> IF x = k THEN (IF k \in DOMAIN f /\ f[k] < v THEN f[k] ELSE v) ELSE f[x]]

PMEv == /\ IsEvent("pm")
        /\ cur' = E.m /\ first' = TRUE /\ gotReply' = FALSE
        /\ UNCHANGED <<prevKind, lastW, lastR, minSend, minRecv>>

PW == /\ IsEvent("pw")
      /\ (first /\ prevKind = "SendData" => E.t0 - lastW >= SendGap)        \* the next message waits 30 ms after a data chunk
      /\ lastW' = E.t1 /\ first' = FALSE
      /\ UNCHANGED <<cur, prevKind, lastR, gotReply, minSend, minRecv>>

PR == /\ IsEvent("pr")
      \* time between the end of the last write and the first read: where a send delay would sit
      /\ minSend' = IF ~gotReply /\ cur.k # "SendData" THEN Upd(minSend, cur.k, E.t0 - lastW) ELSE minSend
      /\ lastR' = E.t1 /\ gotReply' = TRUE
      /\ UNCHANGED <<cur, prevKind, lastW, first, minRecv>>

InProgress(r) == r.k = "ReportState" /\ r.s \in {"PageLoadInProgress", "PageShowInProgress"}

PMRet ==
    /\ IsEvent("pmret")
    /\ (gotReply /\ InProgress(E.res) => E.t - lastR >= RecvGap)            \* 100 ms after an in-progress report
    /\ minRecv' = IF gotReply /\ ~InProgress(E.res) /\ E.res.k \notin {"Err", "Panic"}
                  THEN Upd(minRecv, <<E.res.k, E.res.s>>, E.t - lastR) ELSE minRecv
    /\ minSend' = IF ~gotReply /\ cur.k # "SendData" THEN Upd(minSend, cur.k, E.t - lastW) ELSE minSend
    /\ prevKind' = cur.k
    /\ UNCHANGED <<cur, lastW, lastR, first, gotReply>>

EndEv == /\ IsEvent("end")
         /\ \A k \in DOMAIN minSend : minSend[k] < SendGap                  \* no other message is delayed by 30 ms
         /\ \A k \in DOMAIN minRecv : minRecv[k] < RecvGap                  \* no other reply is delayed by 100 ms
         /\ Cardinality(DOMAIN minSend) >= 9 /\ Cardinality(DOMAIN minRecv) >= 15   \* all kinds were exercised
         /\ UNCHANGED <<cur, prevKind, lastW, lastR, first, gotReply, minSend, minRecv>>

Next == PMEv \/ PW \/ PR \/ PMRet \/ EndEv
Spec == Init /\ [][Next]_vars
=============================================================================
