---------------------------- MODULE Trace_Pacing ----------------------------
(***************************************************************************)
(* C18: pacing of the serial bus, on time stamps (microseconds, monotonic  *)
(* clock) taken at the port's write/read boundaries.                       *)
(*   pm {m, t, wlen}, pw {ret, t0, t1}, pf {ret}, pr {ret, t0, t1},        *)
(*   pmret {res, t}, end                                                   *)
(* wlen = length of the message's frame with CR LF; a data chunk counts as  *)
(* written once that many bytes were accepted by the port (in one or in    *)
(* several short writes), whether or not the call then reports an error.   *)
(* Lower bounds are required on every paced exchange:                      *)
(*   the first write of the message after a data chunk starts >= 30 ms     *)
(*   after the chunk's last write ended; the call returns >= 100 ms after  *)
(*   an in-progress report was read.                                       *)
(* For everything else the minimum over the repeated trials must stay      *)
(* below the pacing delay (so that scheduler noise cannot raise an alarm). *)
(***************************************************************************)
EXTENDS Message, TraceBase, FiniteSets

SendGap == 30000
RecvGap == 100000

VARIABLES l, cur, prevKind, lastW, lastR, first, gotReply, minSend, minRecv, wlen, sent, clean, fl
vars == <<l, cur, prevKind, lastW, lastR, first, gotReply, minSend, minRecv, wlen, sent, clean, fl>>

Init == l = 1 /\ cur = NoReply /\ prevKind = "" /\ lastW = 0 /\ lastR = 0 /\ first = TRUE /\ gotReply = FALSE
        /\ minSend = <<>> /\ minRecv = <<>> /\ wlen = 0 /\ sent = 0 /\ clean = TRUE /\ fl = FALSE

E == Rec[l]
IsEvent(name) == l <= NRec /\ E.e = name /\ l' = l + 1

Upd(f, k, v) == [x \in DOMAIN f \cup {k} |-> IF x = k THEN (IF k \in DOMAIN f /\ f[k] < v THEN f[k] ELSE v) ELSE f[x]]

PMEv == /\ IsEvent("pm")
        /\ cur' = E.m /\ first' = TRUE /\ gotReply' = FALSE /\ wlen' = E.wlen /\ sent' = 0 /\ clean' = TRUE /\ fl' = FALSE
        /\ UNCHANGED <<prevKind, lastW, lastR, minSend, minRecv>>

PW == /\ IsEvent("pw")
      /\ (first /\ prevKind = "SendData" => E.t0 - lastW >= SendGap)        \* the next message waits 30 ms after a data chunk
      /\ first' = FALSE
      /\ IF E.ret > 0 THEN lastW' = E.t1 /\ sent' = sent + E.ret /\ UNCHANGED clean
         ELSE clean' = FALSE /\ UNCHANGED <<lastW, sent>>
      /\ UNCHANGED <<cur, prevKind, lastR, gotReply, minSend, minRecv, wlen, fl>>

PF == /\ IsEvent("pf")
      /\ clean' = (clean /\ E.ret >= 0) /\ fl' = (fl \/ E.ret < 0)
      /\ UNCHANGED <<cur, prevKind, lastW, lastR, first, gotReply, minSend, minRecv, wlen, sent>>

PR == /\ IsEvent("pr")
      \* time between the end of the last write and the first read: where a send delay would sit
      /\ minSend' = IF ~gotReply /\ clean /\ cur.k # "SendData" THEN Upd(minSend, cur.k, E.t0 - lastW) ELSE minSend
      /\ lastR' = E.t1 /\ gotReply' = (E.ret > 0 \/ gotReply) /\ clean' = (clean /\ E.ret > 0)
      /\ UNCHANGED <<cur, prevKind, lastW, first, minRecv, wlen, sent, fl>>

InProgress(r) == r.k = "ReportState" /\ r.s \in {"PageLoadInProgress", "PageShowInProgress"}

PMRet ==
    /\ IsEvent("pmret")
    /\ (gotReply /\ InProgress(E.res) => E.t - lastR >= RecvGap)            \* 100 ms after an in-progress report
    /\ minRecv' = IF gotReply /\ clean /\ ~InProgress(E.res) /\ E.res.k \notin {"Err", "Panic"}
                  THEN Upd(minRecv, <<E.res.k, E.res.s>>, E.t - lastR) ELSE minRecv
    /\ minSend' = IF ~gotReply /\ clean /\ cur.k # "SendData" THEN Upd(minSend, cur.k, E.t - lastW) ELSE minSend
    \* a data chunk counts once its whole frame went out; a chunk that was only partly written is followed by no pause, and
    \* neither is one that the port refused to flush (the library as it stands never flushes; for a version that does, a
    \* refused flush is read as "the chunk is not known to have gone out", the reading that raises no alarm)
    /\ prevKind' = IF cur.k = "SendData" /\ (sent < wlen \/ fl) THEN "partial" ELSE cur.k
    /\ UNCHANGED <<cur, lastW, lastR, first, gotReply, wlen, sent, clean, fl>>

EndEv == /\ IsEvent("end")
         /\ \A k \in DOMAIN minSend : minSend[k] < SendGap                  \* no other message is delayed by 30 ms
         /\ \A k \in DOMAIN minRecv : minRecv[k] < RecvGap                  \* no other reply is delayed by 100 ms
         /\ Cardinality(DOMAIN minSend) >= 9 /\ Cardinality(DOMAIN minRecv) >= 15   \* all kinds were exercised
         /\ UNCHANGED <<cur, prevKind, lastW, lastR, first, gotReply, minSend, minRecv, wlen, sent, clean, fl>>

Next == PMEv \/ PW \/ PF \/ PR \/ PMRet \/ EndEv
Spec == Init /\ [][Next]_vars
=============================================================================
