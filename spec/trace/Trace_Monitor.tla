--------------------------- MODULE Trace_Monitor ----------------------------
(***************************************************************************)
(* Reference-free monitors: the recorded observations alone must satisfy   *)
(* the property; no comparison with the specification's state machine.     *)
(*                                                                         *)
(* C12 (never panics; a transfer ends in received/failed):                 *)
(*   reset, step {m, r, obs}       single sign                             *)
(*   busreset, busstep {m, r, obs} bus of signs                            *)
(* C14 (isolation), on busstep events that carry before/solo/soloobs.      *)
(***************************************************************************)
EXTENDS Message, TraceBase

CONSTANT Prop      \* "C12": a crash is the violation; "C14": a crash ends the segment without a verdict (it is C12's finding)

VARIABLES l, prev, pop
\* prev: projection(s) before the event (a sign projection, or a sequence of them for a bus)
\* pop:  the bus population [addr, flip] (empty for single-sign traces)
vars == <<l, prev, pop>>

Blank == [st |-> "Unconfigured", typ |-> "None", pages |-> <<>>]

Init == l = 1 /\ prev = Blank /\ pop = <<>>

E == Rec[l]
IsEvent(name) == l <= NRec /\ E.e = name /\ l' = l + 1

NoPanic == E.r.k # "Panic" /\ E.r.k # "BusError"

\* a chunk-count announcement to a receiving sign ends the transfer in received or failed
EndsTransfer(before, after) ==
    E.m.k = "DataChunksSent" =>
        /\ (before.st = "PixelsInProgress" => after.st \in {"PixelsReceived", "PixelsFailed"})
        /\ (before.st = "ConfigInProgress" => after.st \in {"ConfigReceived", "ConfigFailed"})

Reset == IsEvent("reset") /\ prev' = Blank /\ pop' = <<>>

StepEv == /\ IsEvent("step")
          /\ NoPanic
          /\ E.obs.st \in States
          /\ EndsTransfer(prev, E.obs)
          /\ prev' = E.obs /\ UNCHANGED pop

BusReset == /\ IsEvent("busreset")
            /\ pop' = E.signs
            \* signs may have a history of their own before they are put on the bus (then their projection is recorded)
            /\ prev' = [i \in 1..Len(E.signs) |-> IF "obs" \in DOMAIN E.signs[i] THEN E.signs[i].obs ELSE Blank]

Receiving(o) == o.st \in {"ConfigInProgress", "PixelsInProgress"}
AddressedKinds == {"Hello", "QueryState", "RequestOperation", "PixelsComplete", "Goodbye"}

\* C14, stated on observations only
Isolation ==
    LET n == Len(pop) IN
    /\ (E.m.k \in AddressedKinds =>
           \* signs with another address keep state, type and pages
           /\ \A i \in 1..n : pop[i].addr # E.m.a => E.obs[i] = prev[i]
           \* the reply carries the addressed sign's address and is what that sign alone would have replied
           /\ (E.r.k # "None" => E.r.a = E.m.a)
           /\ \A i \in 1..n : pop[i].addr = E.m.a => E.r = E.solo[i] /\ E.obs[i] = E.soloobs[i]
           \* nobody has the address: no reply, nothing changes
           /\ ((\A i \in 1..n : pop[i].addr # E.m.a) => E.r.k = "None" /\ E.obs = prev))
    /\ (E.m.k \in {"SendData", "DataChunksSent"} =>
           /\ E.r.k = "None"
           /\ \A i \in 1..n : ~Receiving(prev[i]) => E.obs[i] = prev[i]
           \* and every sign digests it exactly as it would alone on a bus (signs are isolated from each other)
           /\ \A i \in 1..n : E.obs[i] = E.soloobs[i])
    \* messages that only signs send are not for signs: ignored by everybody
    /\ (E.m.k \in {"ReportState", "AckOperation", "Unknown"} => E.r.k = "None" /\ E.obs = prev)

Crashed == E.r.k \in {"Panic", "BusError"}
BusStepEv ==
    /\ IsEvent("busstep")
    /\ (Prop = "C12" => NoPanic)
    /\ ~Crashed
    /\ Len(E.obs) = Len(pop)
    /\ \A i \in 1..Len(pop) : EndsTransfer(prev[i], E.obs[i])
    /\ ("solo" \in DOMAIN E => E.before = prev /\ Isolation)
    /\ prev' = E.obs /\ UNCHANGED pop

\* C14 only: a crashed step is skipped (the recorder ends the walk there; the next event is a busreset)
BusCrash == /\ IsEvent("busstep") /\ Prop # "C12" /\ Crashed /\ UNCHANGED <<prev, pop>>

Next == Reset \/ StepEv \/ BusReset \/ BusStepEv \/ BusCrash
Spec == Init /\ [][Next]_vars
=============================================================================
