------------------------------ MODULE Trace_C19 -----------------------------
(***************************************************************************)
(* C19 on recorded values.  The relations are evaluated on what the real   *)
(* code returned (block, dimensions, decoding, what a virtual sign         *)
(* configured with the block accepts), not by equality with the            *)
(* specification's copy of the table: a consistent change of a sign type   *)
(* is not an alarm, an inconsistent one is.                                *)
(*   type   {name, block, w, h, back, vsign}                               *)
(*   decode {bytes, r}                                                     *)
(* ids: (family, id) pairs of the supported types seen so far -> name.     *)
(***************************************************************************)
EXTENDS SignType, TraceBase

VARIABLES l, ids
vars == <<l, ids>>

Init == l = 1 /\ ids = <<>>          \* a function from pairs to names, built from the type events

E == Rec[l]
IsEvent(name) == l <= NRec /\ E.e = name /\ l' = l + 1

TypeEv ==
    /\ IsEvent("type")
    /\ BlockConsistent(E.block, E.w, E.h)                      \* 16 bytes; height / width / panel / bits fields agree with dimensions()
    /\ E.back.res = E.name                                     \* decodes back to the same type
    \* what a virtual sign derives from the block: a page of w x h is stored with those dimensions, a shorter or longer one is not
    /\ E.vsign.full = [stored |-> 1, w |-> E.w, h |-> E.h, typ |-> E.name]
    /\ E.vsign.short.stored \in {0, -1} /\ E.vsign.long.stored \in {0, -1}     \* (-1: the sign crashed on it - C12's finding, not C19's)
    \* and it is the block sent last that counts (a doctored block with the same family / id before it changes nothing)
    /\ E.vsign.after_doctored = E.vsign.full /\ E.vsign.after_doctored_retry = E.vsign.full
    \* chunks that look like blocks at other offsets of the configuration transfer are not the block
    /\ E.vsign.after_stray = E.vsign.full
    /\ LET pr == <<E.block[1], E.block[2]>> IN
        /\ (pr \in DOMAIN ids => ids[pr] = E.name)             \* no two types share (family, id)
        /\ ids' = [q \in DOMAIN ids \cup {pr} |-> IF q = pr THEN E.name ELSE ids[q]]

DecodeEv ==
    /\ IsEvent("decode")
    /\ Cardinality(DOMAIN ids) >= 1                            \* the supported set has been established (from the type events)
    /\ LET b == E.bytes IN
       IF Len(b) # 16 THEN E.r.res = "WrongConfigLength" /\ E.r.expected = 16 /\ E.r.actual = Len(b)
       ELSE IF <<b[1], b[2]>> \in DOMAIN ids THEN E.r.res = ids[<<b[1], b[2]>>]
       ELSE E.r.res = "UnknownConfig"
    /\ UNCHANGED ids

\* a sweep over the values of the last four bytes behind a fixed prefix (tried: in units of 1024 blocks): none decodes
\* differently from the block with a zero tail (each deviant precedes this event as a decode event of its own)
SweepEv ==
    /\ IsEvent("sweep")
    /\ E.deviants = 0 /\ E.tried >= 1024
    /\ UNCHANGED ids

Next == TypeEv \/ DecodeEv \/ SweepEv
Spec == Init /\ [][Next]_vars
=============================================================================
