SPECIFICATION Spec
CONSTANTS
  Prop = "C09"
POSTCONDITION Accepted
CHECK_DEADLOCK FALSE
