----------------------------- MODULE TraceBase -----------------------------
(***************************************************************************)
(* Shared plumbing for trace validation: the recorded events are read from *)
(* the NDJSON file named by the environment variable TRACE; the cursor l   *)
(* points at the next event to be explained.  A trace is accepted when the *)
(* search reaches the end of the recording (POSTCONDITION Accepted).       *)
(***************************************************************************)
EXTENDS Naturals, Sequences, TLC, Json, IOUtils

Rec == ndJsonDeserialize(IOEnv.TRACE)
NRec == Len(Rec)

\* Number of events explained by the longest behaviour found.
Matched == TLCGet("stats").diameter - 1

Accepted ==
    IF Matched >= NRec
    THEN PrintT(<<"TRACE_ACCEPTED", NRec>>)
    ELSE /\ PrintT(<<"TRACE_REJECTED", Matched + 1, NRec>>)
         /\ PrintT(<<"REJECTED_EVENT", ToJson(Rec[Matched + 1])>>)
         /\ FALSE
=============================================================================
