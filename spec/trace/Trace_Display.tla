--------------------------- MODULE Trace_Display -----------------------------
(* Beyond the listed properties: the Display output of frames, messages and  *)
(* pages recorded from the real code equals the documented formats.          *)
(*   show {what: "frame"|"message"|"page", f | m | p, text}                  *)
(*   show {what: "frameerr", kind, input, expected, actual, text}            *)
EXTENDS Display, TraceBase
VARIABLE l
Init == l = 1
E == Rec[l]
Show == /\ l <= NRec /\ l' = l + 1
        /\ CASE E.what = "frame" -> E.text = FrameText(E.f)
             [] E.what = "message" -> E.text = MessageText(E.m)
             [] E.what = "page" -> E.text = PageText(E.p)
             [] E.what = "frameerr" -> E.kind # "other" /\ E.text = FrameErrText(E.kind, E.input, E.expected, E.actual)
Spec == Init /\ [][Show]_l
=============================================================================
