--------------------------- MODULE Trace_Display -----------------------------
(* Beyond the listed properties: the Display output of frames, messages and  *)
(* pages recorded from the real code equals the documented formats.          *)
(*   show {what: "frame"|"message"|"page", f | m | p, text}                  *)
EXTENDS Display, TraceBase
VARIABLE l
Init == l = 1
E == Rec[l]
Show == /\ l <= NRec /\ l' = l + 1
        /\ CASE E.what = "frame" -> E.text = FrameText(E.f)
             [] E.what = "message" -> E.text = MessageText(E.m)
             [] E.what = "page" -> E.text = PageText(E.p)
Spec == Init /\ [][Show]_l
=============================================================================
