SPECIFICATION Spec
INVARIANT TraceInv
POSTCONDITION Accepted
CHECK_DEADLOCK FALSE
