----------------------------- MODULE Trace_Ctl ------------------------------
(***************************************************************************)
(* Conformance of recorded controller conversations with Controller.tla    *)
(* (C10): events                                                           *)
(*   call {name, me, typ, items}   a public operation starts               *)
(*   x    {m, r}                   the controller sent m, the bus answered *)
(*   ret  {out}                    the operation returned                  *)
(* Every sent message must be CMsg(c) and the outcome must be the one the  *)
(* machine reaches with the recorded replies; the call must not end early  *)
(* or late.                                                                *)
(***************************************************************************)
EXTENDS Controller, TraceBase

VARIABLES l, c
vars == <<l, c>>

Idle == [pc |-> "idle", out |-> "idle"]
Init == l = 1 /\ c = Idle

E == Rec[l]
IsEvent(name) == l <= NRec /\ E.e = name /\ l' = l + 1

CallEv == /\ IsEvent("call")
          /\ c.pc \in {"idle"}
          /\ E.name \in Calls
          /\ c' = Call(E.me, E.name, E.items)

Exchange == /\ IsEvent("x")
            /\ c.pc \notin {"idle", "done"}
            /\ E.m = CMsg(c)
            /\ c' = Recv(c, E.r)

Return == /\ IsEvent("ret")
          /\ c.pc = "done"
          /\ E.out = c.out
          /\ c' = Idle

Next == CallEv \/ Exchange \/ Return
Spec == Init /\ [][Next]_vars
=============================================================================
