SPECIFICATION ApiSpec
POSTCONDITION Accepted
CHECK_DEADLOCK FALSE
