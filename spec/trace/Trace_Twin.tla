----------------------------- MODULE Trace_Twin -----------------------------
(***************************************************************************)
(* C17: the serial transport is transparent.                               *)
(*   twinstart {me, signs}                                                 *)
(*   bridge {line, decodable, direct_msg, res, forwarded, replies, wrote,  *)
(*           reply_wire, bus_unchanged}                                    *)
(*          one Odk::process_message call on the wire twin                 *)
(*   twin   {op, direct:{out, obs}, wire:{out, obs}}                       *)
(*          the same controller call on both twins                         *)
(***************************************************************************)
EXTENDS Serial, TraceBase

VARIABLES l, started
vars == <<l, started>>
Init == l = 1 /\ started = FALSE

E == Rec[l]
IsEvent(name) == l <= NRec /\ E.e = name /\ l' = l + 1

Start == IsEvent("twinstart") /\ started' = TRUE

IsOk(out) == out \in {"Ok", "Ok:Manual", "Ok:Automatic"}

Twin == /\ IsEvent("twin") /\ started
        /\ IsOk(E.direct.out) = IsOk(E.wire.out)            \* succeeds over the wire exactly when it succeeds directly
        /\ (IsOk(E.direct.out) => E.direct.out = E.wire.out)
        /\ E.direct.obs = E.wire.obs                        \* same state, type and pages of every sign either way
        /\ UNCHANGED started

\* decodable / direct_msg: what the library's own decoder and message mapping say of the line;
\* reply_wire: the bus reply's own frame encoding with CR LF (empty if the bus did not reply)
\* raw messages sent through the serial bus on one twin and directly on the other (a missing reply is a time-out on the wire)
TwinRaw == /\ IsEvent("twinraw") /\ started
           /\ Len(E.direct.replies) = Len(E.wire.replies)
           /\ \A i \in 1..Len(E.msgs) :
                 LET d == E.direct.replies[i]
                     w == E.wire.replies[i]
                 IN  IF ResponseExpected(E.msgs[i]) /\ d = NoReply THEN w = ErrReply   \* nobody answered: read time-out
                     ELSE w = d
           /\ E.direct.obs = E.wire.obs
           /\ UNCHANGED started

BridgeEv ==
    /\ IsEvent("bridge") /\ started
    /\ E.line = LineFrom(E.line, 0)                         \* exactly one line was taken from the port
    /\ IF E.res = "panic" THEN E.bus_entered                \* a crash inside the bus is C12's finding: no verdict here;
                                                            \* a crash before the bus was reached is the bridge failing on a line
       ELSE IF E.write_fault THEN E.res = "comm"             \* the port refused the write: a communication error
                                  /\ (E.decodable => E.forwarded = <<E.direct_msg>>)
       ELSE IF ~E.decodable
       THEN /\ E.res = "comm"                               \* undecodable: communication error ...
            /\ E.forwarded = <<>> /\ E.wrote = <<>>         \* ... without touching the bus
            /\ E.bus_unchanged = TRUE
       ELSE /\ E.res = "ok"
            /\ E.forwarded = <<E.direct_msg>>               \* each decoded frame is forwarded, once
            /\ Len(E.replies) = 1
            /\ (E.replies[1] = NoReply) = (E.wrote = <<>>)  \* a frame is written back iff the bus replied
            /\ E.wrote = E.reply_wire
    /\ UNCHANGED started

Next == Start \/ Twin \/ TwinRaw \/ BridgeEv
Spec == Init /\ [][Next]_vars
=============================================================================
