---------------------------- MODULE Trace_VSign -----------------------------
(***************************************************************************)
(* Conformance of recorded virtual-sign / virtual-bus behaviour with       *)
(* VirtualSign.tla and Bus.tla (C13, C14).                                 *)
(*                                                                         *)
(* Single-sign events (tree-shaped recording of the implementation's own   *)
(* state graph, and random walks):                                         *)
(*   reset {addr, flip}        start a fresh sign                          *)
(*   step  {m, r, obs}         deliver m; reply r, projection obs; advance *)
(*   probe {m, r, obs}         same, on a clone: checked, not advanced     *)
(*   down  {m, r, obs}         like step, remembering the state to return  *)
(*   up                        return to the remembered state              *)
(* Bus events:                                                             *)
(*   busreset {signs}, busstep {m, r, before, obs, solo, soloobs}          *)
(* Unlogged variables (pending bytes, counter, width, height) are computed *)
(* by the specification's own Step.                                        *)
(***************************************************************************)
EXTENDS Bus, TraceBase

VARIABLES l, stack, bus
vars == <<l, stack, bus>>

Init == l = 1 /\ stack = <<>> /\ bus = <<>>

E == Rec[l]
IsEvent(name) == l <= NRec /\ E.e = name /\ l' = l + 1

Top == stack[Len(stack)]

Matches(x) == x.r = E.r /\ SignObs(x.s) = E.obs

Reset == /\ IsEvent("reset")
         /\ stack' = <<NewSign(E.addr, E.flip)>>
         /\ UNCHANGED bus

StepEv == /\ IsEvent("step") /\ Len(stack) >= 1
          /\ LET x == Step(Top, E.m) IN Matches(x) /\ stack' = [stack EXCEPT ![Len(stack)] = x.s]
          /\ UNCHANGED bus

Probe == /\ IsEvent("probe") /\ Len(stack) >= 1
         /\ Matches(Step(Top, E.m))
         /\ UNCHANGED <<stack, bus>>

Down == /\ IsEvent("down") /\ Len(stack) >= 1
        /\ LET x == Step(Top, E.m) IN Matches(x) /\ stack' = Append(stack, x.s)
        /\ UNCHANGED bus

Up == /\ IsEvent("up") /\ Len(stack) >= 2
      /\ stack' = SubSeq(stack, 1, Len(stack) - 1)
      /\ UNCHANGED bus

BusReset == /\ IsEvent("busreset")
            /\ bus' = [i \in 1..Len(E.signs) |-> NewSign(E.signs[i].addr, E.signs[i].flip)]
            /\ DistinctAddrs(bus')
            /\ UNCHANGED stack

BusStepEv ==
    /\ IsEvent("busstep")
    /\ LET x == BusStep(bus, E.m) IN
        /\ x.r = E.r                                     \* conformance with Bus.tla
        /\ BusObs(x.signs) = E.obs
        /\ BusObs(bus) = E.before
        /\ bus' = x.signs
        \* C14 on the model state (the spec itself satisfies them; evaluated as a cross-check)
        /\ AddressedIsolation(bus, E.m)
        /\ UnaddressedOnlyReceiving(bus, E.m)
    /\ UNCHANGED stack

Next == Reset \/ StepEv \/ Probe \/ Down \/ Up \/ BusReset \/ BusStepEv
Spec == Init /\ [][Next]_vars

\* design invariants, evaluated on every state the recorded behaviour drives the specification into
TraceInv == /\ \A i \in 1..Len(stack) : PagesComplete(stack[i]) /\ PendingOnlyWhen(stack[i]) /\ CounterZeroOutsideTransfer(stack[i])
            /\ \A i \in 1..Len(bus) : PagesComplete(bus[i]) /\ PendingOnlyWhen(bus[i])
=============================================================================
