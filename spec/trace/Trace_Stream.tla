---------------------------- MODULE Trace_Stream ----------------------------
(***************************************************************************)
(* C15 on recorded I/O: every read()/write() call that Frame::read and     *)
(* Frame::write made on an instrumented stream, and what they returned.    *)
(*   rstart {src}            a byte stream                                 *)
(*   rcall                   Frame::read is called                         *)
(*   read   {req, ret}       ret > 0 bytes handed over, 0 end of stream,   *)
(*                           -1 interrupted, -2 hard error                 *)
(*   rret   {res, left, line, direct}  its result; bytes left; the bytes it  *)
(*                           consumed and what from_bytes says of them     *)
(*   wstart {frame, want}    Frame::write is called; want = its encoding   *)
(*   write  {offered, ret}   ret > 0 accepted, 0 accepted nothing,         *)
(*                           -1 interrupted, -2 hard error                 *)
(*   wret   {res, flushed}   "ok" | "io"                                   *)
(***************************************************************************)
EXTENDS Stream, TraceBase

\* lend: where the line that the current Frame::read call must consume ends (computed once per call)
VARIABLES l, src, pos, pos0, lend, rfault, want, delivered, wfault
vars == <<l, src, pos, pos0, lend, rfault, want, delivered, wfault>>

Init == l = 1 /\ src = <<>> /\ pos = 0 /\ pos0 = 0 /\ lend = 0 /\ rfault = FALSE /\ want = <<>> /\ delivered = <<>> /\ wfault = FALSE

E == Rec[l]
IsEvent(name) == l <= NRec /\ E.e = name /\ l' = l + 1

RStart == IsEvent("rstart") /\ src' = E.src /\ pos' = 0 /\ pos0' = 0 /\ lend' = 0 /\ rfault' = FALSE /\ UNCHANGED <<want, delivered, wfault>>
RCall  == IsEvent("rcall") /\ pos0' = pos /\ lend' = pos + Len(LineFrom(src, pos)) /\ rfault' = FALSE /\ UNCHANGED <<src, pos, want, delivered, wfault>>

Line == SubSeq(src, pos0 + 1, lend)
\* identical consecutive read calls are recorded once with a count
Times == IF "times" \in DOMAIN E THEN E.times ELSE 1

ReadEv ==
    /\ IsEvent("read")
    /\ E.req >= 1
    /\ IF E.ret > 0
       THEN /\ E.ret <= E.req /\ pos + E.ret * Times <= Len(src)
            /\ pos' = pos + E.ret * Times
            /\ pos' <= lend                            \* not one byte beyond the first line feed
            /\ UNCHANGED rfault
       ELSE /\ pos' = pos
            /\ rfault' = (rfault \/ E.ret = -2)
            /\ (E.ret = 0 => pos = Len(src))
    /\ UNCHANGED <<src, pos0, lend, want, delivered, wfault>>

RRet ==
    /\ IsEvent("rret")
    /\ IF rfault THEN E.res.kind = "io"                 \* a hard error surfaces as an I/O error
       ELSE /\ pos = lend                               \* the whole line was consumed ...
            /\ E.line = Line                            \* ... and the result is the decoding of exactly that line
            /\ E.res = E.direct                         \*     (direct = what Frame::from_bytes returns for it)
    /\ E.left = Len(src) - pos                          \* trailing bytes stay in the stream
    /\ UNCHANGED <<src, pos, pos0, lend, rfault, want, delivered, wfault>>

WStart == /\ IsEvent("wstart")
          /\ want' = E.want                          \* the frame's own encoding with CR LF (to_bytes_with_newline)
          /\ delivered' = <<>> /\ wfault' = FALSE
          /\ UNCHANGED <<src, pos, pos0, lend, rfault>>

WriteEv ==
    /\ IsEvent("write")
    /\ IF E.ret > 0
       THEN /\ E.ret <= Len(E.offered)
            /\ delivered' = delivered \o SubSeq(E.offered, 1, E.ret)
            /\ IsPrefix(delivered', want)               \* never anything but the encoding, in order
            /\ UNCHANGED wfault
       ELSE /\ delivered' = delivered
            /\ wfault' = (wfault \/ E.ret \in {0, -2})
    /\ UNCHANGED <<src, pos, pos0, lend, rfault, want>>

WRet ==
    /\ IsEvent("wret")
    /\ IF wfault THEN E.res = "io"                      \* a refusing or failing sink surfaces as an I/O error
       ELSE E.res = "ok" /\ delivered = want            \* otherwise exactly the encoding with CR LF was delivered
    /\ UNCHANGED <<src, pos, pos0, lend, rfault, want, delivered, wfault>>

Next == RStart \/ RCall \/ ReadEv \/ RRet \/ WStart \/ WriteEv \/ WRet
Spec == Init /\ [][Next]_vars
=============================================================================
