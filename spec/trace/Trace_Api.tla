------------------------------ MODULE Trace_Api ------------------------------
(***************************************************************************)
(* Specification growth beyond the 20 properties: the small public API     *)
(* around the protocol, and the repository's example programs as traces.   *)
(*   sign     {typ, addr, w, h, rtyp, raddr}   Sign accessors              *)
(*   mkpage   {typ, id, w, h, bytes}           Sign::create_page           *)
(*   frameapi {addr, t, data, r_addr, r_t, r_data, r_into}  Frame::new and *)
(*            its accessors                                                *)
(*   datatry  {len, ok}                        Data::try_new               *)
(*   prior / call / ret                        as in Trace_C08: the call   *)
(*            sequence of examples/send_pages.rs for every sign type and   *)
(*            flip style, with the pages the example draws                 *)
(***************************************************************************)
EXTENDS Trace_C08

SignEv == /\ IsEvent("sign")
          /\ E.typ \in DOMAIN TypeTable
          /\ <<E.w, E.h>> = Dim(E.typ)                 \* width() / height() are the type's dimensions
          /\ E.rtyp = E.typ /\ E.raddr = E.addr         \* sign_type() / address() give back what the sign was created with
          /\ UNCHANGED <<flip, prev, call>>

MkPageEv == /\ IsEvent("mkpage")
            /\ <<E.w, E.h>> = Dim(E.typ)
            /\ E.bytes = NewBytes(E.id, E.w, E.h)       \* a blank page of the sign's size with the requested id
            /\ UNCHANGED <<flip, prev, call>>

FrameApiEv == /\ IsEvent("frameapi")
              /\ E.r_addr = E.addr /\ E.r_t = E.t /\ E.r_data = E.data /\ E.r_into = E.data
              /\ UNCHANGED <<flip, prev, call>>

DataTryEv == /\ IsEvent("datatry")
             /\ E.ok = (E.len <= 255)                   \* the one-byte length field can never truncate
             /\ UNCHANGED <<flip, prev, call>>

ApiNext == Next \/ SignEv \/ MkPageEv \/ FrameApiEv \/ DataTryEv
ApiSpec == Init /\ [][ApiNext]_vars
=============================================================================
