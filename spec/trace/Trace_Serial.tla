---------------------------- MODULE Trace_Serial ----------------------------
(***************************************************************************)
(* C16 and C20 on recorded port-level behaviour.                           *)
(* C16: one SerialSignBus::process_message call per segment                *)
(*   pm    {m, rx, wire}    the message; bytes waiting on the receive side;*)
(*                          the message's own frame encoding with CR LF    *)
(*   pw    {data, ret}      a write call on the port (-2: injected fault,  *)
(*                          -4: interrupted, i.e. to be repeated)           *)
(*   pr    {req, ret}       a read call (-2 fault, -3 time-out)            *)
(*   pmret {res, txd, rxleft, line, direct}  direct = decoding of the line *)
(* C20: one port set-up per segment                                        *)
(*   setup {ctor, prior, timeout, fail}; dev {call, ok}; setupret {...}    *)
(*   (time-outs are recorded as text 'seconds.nanoseconds': they can       *)
(*   exceed TLC's 32-bit integers)                                         *)
(***************************************************************************)
EXTENDS Serial, TraceBase

\* wire: the message's own frame encoding with CR LF, as the library's Message -> Frame -> bytes conversion gives it
VARIABLES l, m, rx, wire, txd, consumed, nreads, fault, ffault, su, failed
vars == <<l, m, rx, wire, txd, consumed, nreads, fault, ffault, su, failed>>

NoSetup == [ctor |-> "", timeout |-> ""]
Init == l = 1 /\ m = NoReply /\ rx = <<>> /\ wire = <<>> /\ txd = <<>> /\ consumed = 0 /\ nreads = 0 /\ fault = FALSE /\ ffault = FALSE /\ su = NoSetup /\ failed = FALSE

E == Rec[l]
IsEvent(name) == l <= NRec /\ E.e = name /\ l' = l + 1

PMEv == /\ IsEvent("pm")
        /\ m' = E.m /\ rx' = E.rx /\ wire' = E.wire /\ txd' = <<>> /\ consumed' = 0 /\ nreads' = 0 /\ fault' = FALSE /\ ffault' = FALSE
        /\ UNCHANGED <<su, failed>>

PW == /\ IsEvent("pw")
      /\ IF E.ret >= 0 THEN txd' = txd \o SubSeq(E.data, 1, E.ret) /\ UNCHANGED fault
         ELSE IF E.ret = -4 THEN UNCHANGED <<txd, fault>>          \* interrupted: to be repeated, not a failure
         ELSE fault' = TRUE /\ UNCHANGED txd
      /\ IsPrefix(txd', wire)                          \* nothing but the message's frame is ever written
      /\ nreads = 0                                    \* and it is written before anything is read
      /\ UNCHANGED <<m, rx, wire, consumed, nreads, ffault, su, failed>>

PR == /\ IsEvent("pr")
      /\ ResponseExpected(m)                           \* a read happens only when a reply is due
      /\ txd = wire                                    \* and only after the whole frame went out
      /\ nreads' = nreads + 1
      /\ IF E.ret > 0 THEN consumed' = consumed + E.ret /\ consumed' <= Len(LineFrom(rx, 0)) /\ UNCHANGED fault
         ELSE consumed' = consumed /\ fault' = (fault \/ E.ret = -2)   \* -3: time-out (nothing there), -4: interrupted (repeat)
      /\ UNCHANGED <<m, rx, wire, txd, ffault, su, failed>>

\* a flush of the port: not a write, not a read (the library as it stands never flushes; a version that does may or
\* may not report a refused flush, but it can never pass off anything else as the reply)
PF == /\ IsEvent("pf")
      /\ ffault' = (ffault \/ E.ret < 0)
      /\ UNCHANGED <<m, rx, wire, txd, consumed, nreads, fault, su, failed>>

PMRet ==
    /\ IsEvent("pmret")
    /\ E.txd = txd
    /\ E.rxleft = Len(rx) - consumed
    /\ IF fault THEN E.res.k = "Err"                   \* a write or read failure is an error, not a missing reply
       ELSE IF ffault /\ E.res.k = "Err" THEN TRUE
       ELSE /\ txd = wire                              \* exactly one frame out
            /\ IF ResponseExpected(m)
               THEN /\ consumed = Len(LineFrom(rx, 0)) \* exactly one line in
                    /\ E.line = LineFrom(rx, 0)
                    \* its decoding (direct = what the library's own decoder and message mapping say of that line),
                    \* or an error if it cannot be decoded / nothing came
                    /\ E.res = (IF E.line = <<>> THEN ErrReply ELSE E.direct)
               ELSE nreads = 0 /\ E.res = NoReply
    /\ UNCHANGED <<m, rx, wire, txd, consumed, nreads, fault, ffault, su, failed>>

SetupEv == /\ IsEvent("setup")
           /\ su' = [ctor |-> E.ctor, timeout |-> E.timeout] /\ failed' = FALSE
           /\ UNCHANGED <<m, rx, wire, txd, consumed, nreads, fault, ffault>>
DevEv == /\ IsEvent("dev")
         /\ failed' = (failed \/ ~E.ok)
         /\ UNCHANGED <<m, rx, wire, txd, consumed, nreads, fault, ffault, su>>
SetupRet ==
    /\ IsEvent("setupret")
    /\ SetupOK([res |-> E.res, port |-> E.final, timeout |-> E.timeout_set], failed)
    /\ (E.res = "ok" /\ su.ctor = "configure_port" => E.timeout = su.timeout)    \* the caller's value when configured directly
    /\ UNCHANGED <<m, rx, wire, txd, consumed, nreads, fault, ffault, su, failed>>

Next == PMEv \/ PW \/ PR \/ PF \/ PMRet \/ SetupEv \/ DevEv \/ SetupRet
Spec == Init /\ [][Next]_vars
=============================================================================
