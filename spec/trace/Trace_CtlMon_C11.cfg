SPECIFICATION Spec
CONSTANTS
  Prop = "C11"
POSTCONDITION Accepted
CHECK_DEADLOCK FALSE
