SPECIFICATION Spec
CONSTANTS
  Prop = "C12"
POSTCONDITION Accepted
CHECK_DEADLOCK FALSE
