SPECIFICATION Spec
CONSTANTS
  Prop = "C14"
POSTCONDITION Accepted
CHECK_DEADLOCK FALSE
