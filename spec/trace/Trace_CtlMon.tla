---------------------------- MODULE Trace_CtlMon ----------------------------
(***************************************************************************)
(* Reference-free monitors over recorded controller conversations.         *)
(* Prop = "C09": the transfer monitor (complete, ordered, offsets, count,  *)
(*               acknowledged first, result asked last).                   *)
(* Prop = "C11": no unconfirmed success, fail-stop, bounded retries, own   *)
(*               address only, foreign replies never treated as own.       *)
(* The monitors never consult CMsg/Recv: a protocol change that keeps the  *)
(* property is not an alarm.                                               *)
(***************************************************************************)
EXTENDS Controller, TraceBase

CONSTANT Prop

VARIABLES l, call, mon, log
vars == <<l, call, mon, log>>

\* the items of a call can be large (65536-byte pages): the state only remembers where the call event is
NoCall == [name |-> "", me |-> 0, at |-> 0]
Items == Rec[call.at].items
Init == l = 1 /\ call = NoCall /\ mon = Mon0 /\ log = <<>>

E == Rec[l]
IsEvent(name) == l <= NRec /\ E.e = name /\ l' = l + 1

CallEv == /\ IsEvent("call")
          /\ call' = [name |-> E.name, me |-> E.me, at |-> l]
          /\ mon' = Mon0 /\ log' = <<>>

Exchange ==
    /\ IsEvent("x")
    /\ call.name # ""
    /\ IF Prop = "C09"
       THEN /\ mon' = XferMon(mon, call.me, XferOp(call.name), Items, E.m, E.r)
            /\ mon'.ph # "bad"
            /\ log' = IF E.m.k = "DataChunksSent" THEN Append(log, 1) ELSE log      \* only counts transfers
       ELSE /\ log' = Append(log, [m |-> E.m, r |-> E.r])
            /\ C11Log(log', call.me, call.name)
            /\ mon' = mon
    /\ UNCHANGED call

Return ==
    /\ IsEvent("ret")
    /\ call.name # ""
    /\ E.out # "Panic"
    /\ IF Prop = "C09"
       THEN XferMonReturn(mon, call.name, E.out, Len(log)).ph # "bad"
       ELSE C11Return(log, call.me, call.name, E.out)
    /\ call' = NoCall /\ mon' = Mon0 /\ log' = <<>>

Next == CallEv \/ Exchange \/ Return
Spec == Init /\ [][Next]_vars
=============================================================================
