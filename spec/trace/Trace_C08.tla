----------------------------- MODULE Trace_C08 ------------------------------
(***************************************************************************)
(* C08 monitor: a real Sign drives a real VirtualSignBus that earlier      *)
(* traffic left in an arbitrary state.  Events:                            *)
(*   prior {addr, flip, obs}                 the sign as earlier traffic   *)
(*                                           left it                       *)
(*   call  {name, typ, w, h, items}          a controller call starts      *)
(*   ret   {out, obs}                        it returned; projection after *)
(* The postconditions are System!Post*; they are evaluated on the recorded *)
(* observations only.                                                      *)
(***************************************************************************)
EXTENDS System, TraceBase

VARIABLES l, flip, prev, call
vars == <<l, flip, prev, call>>

NoCall == [name |-> "", typ |-> "", w |-> 0, h |-> 0, items |-> <<>>]
Init == l = 1 /\ flip = "Manual" /\ prev = [st |-> "Unconfigured", typ |-> "None", pages |-> <<>>] /\ call = NoCall

E == Rec[l]
IsEvent(name) == l <= NRec /\ E.e = name /\ l' = l + 1

Prior == /\ IsEvent("prior")
         /\ flip' = E.flip /\ prev' = E.obs /\ call' = NoCall

CallEv == /\ IsEvent("call")
          /\ call.name = ""
          /\ (E.name = "configure_if_needed" => CinApplicable(prev, E.typ))
          /\ (E.name = "send_pages" => prev.typ = E.typ)      \* pages are sent to a sign configured as this type
          /\ call' = [name |-> E.name, typ |-> E.typ, w |-> E.w, h |-> E.h, items |-> E.items]
          /\ UNCHANGED <<flip, prev>>

Ret == /\ IsEvent("ret")
       /\ call.name # ""
       /\ CASE call.name = "configure" -> PostConfigure(E.out, E.obs, call.typ)
            [] call.name = "configure_if_needed" -> PostCin(E.out, prev, E.obs, call.typ)
            [] call.name = "send_pages" -> PostSendPages(E.out, E.obs, flip, call.items, call.w, call.h)
            [] call.name \in {"show", "load"} -> PostSwitch(call.name, E.out, prev, E.obs, flip)
            [] OTHER -> E.out # "Panic"
       /\ prev' = E.obs /\ call' = NoCall /\ UNCHANGED flip

Next == Prior \/ CallEv \/ Ret
Spec == Init /\ [][Next]_vars
=============================================================================
