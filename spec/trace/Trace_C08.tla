----------------------------- MODULE Trace_C08 ------------------------------
(***************************************************************************)
(* C08 monitor: a real Sign drives a real VirtualSignBus that earlier      *)
(* traffic left in an arbitrary state.  Events:                            *)
(*   prior {addr, flip, obs}                 the sign as earlier traffic   *)
(*                                           left it                       *)
(*   call  {name, typ, w, h, items}          a controller call starts      *)
(*   ret   {out, obs}                        it returned; projection after *)
(*   bigcall {name, typ, w, h, n} / bigret {out, st, typ, n_pages,         *)
(*            first_diff}   a send of tens of thousands of pages, recorded *)
(*            as a digest: how many pages the sign holds and the index of  *)
(*            the first one that differs from what was sent (-1: none)     *)
(* The postconditions are System!Post*; they are evaluated on the recorded *)
(* observations only.                                                      *)
(***************************************************************************)
EXTENDS System, TraceBase

VARIABLES l, flip, prev, call
vars == <<l, flip, prev, call>>

NoCall == [name |-> "", typ |-> "", w |-> 0, h |-> 0, items |-> <<>>]
Init == l = 1 /\ flip = "Manual" /\ prev = [st |-> "Unconfigured", typ |-> "None", pages |-> <<>>] /\ call = NoCall

E == Rec[l]
IsEvent(name) == l <= NRec /\ E.e = name /\ l' = l + 1

Prior == /\ IsEvent("prior")
         /\ flip' = E.flip /\ prev' = E.obs /\ call' = NoCall

CallEv == /\ IsEvent("call")
          /\ call.name = ""
          /\ (E.name = "configure_if_needed" => CinApplicable(prev, E.typ))
          /\ (E.name = "send_pages" => prev.typ = E.typ)      \* pages are sent to a sign configured as this type
          /\ call' = [name |-> E.name, typ |-> E.typ, w |-> E.w, h |-> E.h, items |-> E.items]
          /\ UNCHANGED <<flip, prev>>

Ret == /\ IsEvent("ret")
       /\ call.name # ""
       /\ CASE call.name = "configure" -> PostConfigure(E.out, E.obs, call.typ)
            [] call.name = "configure_if_needed" -> PostCin(E.out, prev, E.obs, call.typ)
            [] call.name = "send_pages" -> PostSendPages(E.out, E.obs, flip, call.items, call.w, call.h)
            [] call.name \in {"show", "load"} -> PostSwitch(call.name, E.out, prev, E.obs, flip)
            [] OTHER -> E.out # "Panic"
       /\ prev' = E.obs /\ call' = NoCall /\ UNCHANGED flip

BigCall == /\ IsEvent("bigcall")
           /\ call.name = "" /\ E.name = "send_pages" /\ prev.typ = E.typ
           /\ call' = [name |-> "big", typ |-> E.typ, w |-> E.n, h |-> 0, items |-> <<>>]
           /\ UNCHANGED <<flip, prev>>

BigRet == /\ IsEvent("bigret")
          /\ call.name = "big"
          /\ E.out = (IF flip = "Automatic" THEN "Ok:Automatic" ELSE "Ok:Manual")
          /\ E.st = (IF flip = "Automatic" THEN "ShowingPages" ELSE "PageLoaded")
          /\ E.typ = call.typ
          /\ E.n_pages = call.w /\ E.first_diff = -1              \* exactly those pages, in order, with identical bytes
          /\ prev' = [st |-> E.st, typ |-> E.typ, pages |-> <<>>] /\ call' = NoCall /\ UNCHANGED flip

Next == Prior \/ CallEv \/ Ret \/ BigCall \/ BigRet
Spec == Init /\ [][Next]_vars
=============================================================================
