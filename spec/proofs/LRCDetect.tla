------------------------------ MODULE LRCDetect ------------------------------
(***************************************************************************)
(* C02, for frames of ANY length: why the longitudinal redundancy check    *)
(* detects a single hex-digit substitution and an adjacent transposition   *)
(* of unequal hex digits.  The wire text is pairs of hex digits whose byte *)
(* values sum to 0 mod 256.  T is the sum of the bytes that the damage     *)
(* does not touch; the touched byte(s) contribute u before and v after.    *)
(*   substitution of one digit: one byte changes, x -> y, x # y            *)
(*   swap of the two digits of a byte: 16a+b -> 16b+a                      *)
(*   swap across a byte boundary: (16h+a),(16b+l) -> (16h+b),(16a+l)       *)
(* In every case the new sum is not 0 mod 256, so the decoder (which       *)
(* accepts only a sum of 0) rejects the text.  (Damage that changes the    *)
(* number of digits or produces a non-hex character is rejected as         *)
(* malformed or as a length mismatch before the checksum is looked at;     *)
(* MC_Corrupt checks all classes exhaustively on bounded frames.)          *)
(***************************************************************************)
EXTENDS Integers, TLAPS

LEMMA DivMod == \A n \in Nat : n = 256 * (n \div 256) + (n % 256) /\ (n \div 256) \in Nat
  OBVIOUS

\* two multiples of 256 whose offsets differ by less than 256 have equal offsets
LEMMA Close == \A k1, k2 \in Nat, u \in Nat, v \in Nat :
                  (256 * k1 + v = 256 * k2 + u /\ u < v + 256 /\ v < u + 256) => u = v
  OBVIOUS

THEOREM Detect == \A T \in Nat, u \in Nat, v \in Nat :
                    ((T + u) % 256 = 0 /\ u # v /\ u < v + 256 /\ v < u + 256) => (T + v) % 256 # 0
<1> SUFFICES ASSUME NEW T \in Nat, NEW u \in Nat, NEW v \in Nat,
                    (T + u) % 256 = 0, (T + v) % 256 = 0, u - v < 256, v - u < 256
             PROVE  u = v
    OBVIOUS
<1> DEFINE k1 == (T + u) \div 256
<1> DEFINE k2 == (T + v) \div 256
<1>1. T + u = 256 * k1 /\ k1 \in Nat  BY DivMod
<1>2. T + v = 256 * k2 /\ k2 \in Nat  BY DivMod
<1> HIDE DEF k1, k2
<1>3. 256 * k1 + v = 256 * k2 + u  BY <1>1, <1>2
<1> QED BY <1>3, <1>1, <1>2, Close

\* a single digit substitution changes one byte
THEOREM Substitution == \A T \in Nat, x \in 0..255, y \in 0..255 : ((T + x) % 256 = 0 /\ x # y) => (T + y) % 256 # 0
<1> SUFFICES ASSUME NEW T \in Nat, NEW x \in 0..255, NEW y \in 0..255, (T + x) % 256 = 0, x # y
             PROVE  (T + y) % 256 # 0
    OBVIOUS
<1>1. x \in Nat /\ y \in Nat /\ x < y + 256 /\ y < x + 256  OBVIOUS
<1> QED BY <1>1, Detect

THEOREM SwapInByte == \A T \in Nat, a \in 0..15, b \in 0..15 :
                        ((T + (16 * a + b)) % 256 = 0 /\ a # b) => (T + (16 * b + a)) % 256 # 0
<1> SUFFICES ASSUME NEW T \in Nat, NEW a \in 0..15, NEW b \in 0..15, (T + (16 * a + b)) % 256 = 0, a # b
             PROVE  (T + (16 * b + a)) % 256 # 0
    OBVIOUS
<1> DEFINE u == 16 * a + b
<1> DEFINE v == 16 * b + a
<1>1. u \in Nat /\ v \in Nat /\ u # v /\ u < v + 256 /\ v < u + 256  OBVIOUS
<1>2. (T + u) % 256 = 0  OBVIOUS
<1> HIDE DEF u, v
<1>3. (T + v) % 256 # 0  BY <1>1, <1>2, Detect
<1> QED BY <1>3 DEF v

THEOREM SwapAcrossBytes == \A T \in Nat, a \in 0..15, b \in 0..15, h \in 0..15, l \in 0..15 :
                        ((T + ((16 * h + a) + (16 * b + l))) % 256 = 0 /\ a # b) => (T + ((16 * h + b) + (16 * a + l))) % 256 # 0
<1> SUFFICES ASSUME NEW T \in Nat, NEW a \in 0..15, NEW b \in 0..15, NEW h \in 0..15, NEW l \in 0..15,
                    (T + ((16 * h + a) + (16 * b + l))) % 256 = 0, a # b
             PROVE  (T + ((16 * h + b) + (16 * a + l))) % 256 # 0
    OBVIOUS
<1> DEFINE u == (16 * h + a) + (16 * b + l)
<1> DEFINE v == (16 * h + b) + (16 * a + l)
<1>1. u \in Nat /\ v \in Nat /\ u # v /\ u < v + 256 /\ v < u + 256  OBVIOUS
<1>2. (T + u) % 256 = 0  OBVIOUS
<1> HIDE DEF u, v
<1>3. (T + v) % 256 # 0  BY <1>1, <1>2, Detect
<1> QED BY <1>3 DEF v
=============================================================================
