----------------------------- MODULE WideArith -----------------------------
(***************************************************************************)
(* C07 on pages beyond TLC's 32-bit integers: the two-limb forms used by   *)
(* Trace_Page on recorded pages of 4 GiB and more (Page!WideChunks,        *)
(* Page!WideIndex) equal the plain definitions for ALL sizes, not only on  *)
(* the model-checked box (MC_Layout!WideAgrees).  Proved with TLAPS.       *)
(***************************************************************************)
EXTENDS Naturals, Integers, TLAPS

BPC(h) == (h + 7) \div 8
ByteIndex(h, x, y) == 4 + x * BPC(h) + y \div 8
DataBytes(w, h) == 4 + w * BPC(h)
TotalBytes(w, h) == ((DataBytes(w, h) + 15) \div 16) * 16

WideChunks(w, h) == LET bpc == BPC(h) IN w * (bpc \div 16) + (w * (bpc % 16) + 4 + 15) \div 16
WideHi(h, x, y) == LET bpc == BPC(h) raw == (x % 65536) * bpc + 4 + y \div 8 IN (x \div 65536) * bpc + raw \div 65536
WideLo(h, x, y) == LET bpc == BPC(h) raw == (x % 65536) * bpc + 4 + y \div 8 IN raw % 65536

LEMMA MulNat == \A a, b \in Nat : a * b \in Nat
  OBVIOUS
LEMMA DivMod16 == \A b \in Nat : b = 16 * (b \div 16) + (b % 16) /\ b \div 16 \in Nat /\ b % 16 \in Nat
  OBVIOUS
LEMMA DivMod64k == \A b \in Nat : b = 65536 * (b \div 65536) + (b % 65536) /\ b \div 65536 \in Nat /\ b % 65536 \in Nat /\ b % 65536 < 65536
  OBVIOUS
LEMMA Distr == \A w, k, q, r \in Nat : w * (k * q + r) = k * (w * q) + w * r
  OBVIOUS
LEMMA DivAdd16 == \A A, X \in Nat : (16 * A + X) \div 16 = A + X \div 16
  OBVIOUS

THEOREM ChunksOK == \A w, h \in Nat : WideChunks(w, h) * 16 = TotalBytes(w, h)
<1> SUFFICES ASSUME NEW w \in Nat, NEW h \in Nat PROVE WideChunks(w, h) * 16 = TotalBytes(w, h)
    OBVIOUS
<1> DEFINE b == BPC(h)
<1> DEFINE q == b \div 16
<1> DEFINE r == b % 16
<1>1. b \in Nat  BY DEF BPC
<1>2. b = 16 * q + r /\ q \in Nat /\ r \in Nat  BY <1>1, DivMod16
<1>3. w * b = 16 * (w * q) + w * r
    <2>1. w * (16 * q + r) = 16 * (w * q) + w * r  BY <1>2, Distr
    <2> QED BY <2>1, <1>2
<1> DEFINE A == w * q
<1> DEFINE B == w * r
<1>4. A \in Nat /\ B \in Nat  BY <1>2, MulNat
<1>5. WideChunks(w, h) = A + (B + 4 + 15) \div 16  BY DEF WideChunks
<1>6. TotalBytes(w, h) = ((4 + (16 * A + B) + 15) \div 16) * 16  BY <1>3 DEF TotalBytes, DataBytes
<1> HIDE DEF A, B, b, q, r
<1>7. (4 + (16 * A + B) + 15) \div 16 = A + (B + 4 + 15) \div 16
    <2>1. 4 + (16 * A + B) + 15 = 16 * A + (B + 4 + 15)  BY <1>4
    <2>2. B + 4 + 15 \in Nat  BY <1>4
    <2> QED BY <2>1, <2>2, <1>4, DivAdd16
<1> QED BY <1>5, <1>6, <1>7

THEOREM IndexOK == \A h, x, y \in Nat : WideHi(h, x, y) * 65536 + WideLo(h, x, y) = ByteIndex(h, x, y) /\ WideLo(h, x, y) < 65536
<1> SUFFICES ASSUME NEW h \in Nat, NEW x \in Nat, NEW y \in Nat
             PROVE WideHi(h, x, y) * 65536 + WideLo(h, x, y) = ByteIndex(h, x, y) /\ WideLo(h, x, y) < 65536
    OBVIOUS
<1> DEFINE b == BPC(h)
<1> DEFINE xh == x \div 65536
<1> DEFINE xl == x % 65536
<1> DEFINE yq == y \div 8
<1>1. b \in Nat /\ yq \in Nat  BY DEF BPC
<1>2. x = 65536 * xh + xl /\ xh \in Nat /\ xl \in Nat  BY DivMod64k
<1>3. x * b = 65536 * (xh * b) + xl * b
    <2>1. b * (65536 * xh + xl) = 65536 * (b * xh) + b * xl  BY <1>1, <1>2, Distr
    <2> QED BY <2>1, <1>1, <1>2
<1> DEFINE H == xh * b
<1> DEFINE L == xl * b
<1>4. H \in Nat /\ L \in Nat  BY <1>1, <1>2, MulNat
<1> DEFINE raw == L + 4 + yq
<1>5. raw \in Nat  BY <1>4, <1>1
<1>6. raw = 65536 * (raw \div 65536) + (raw % 65536) /\ raw \div 65536 \in Nat /\ raw % 65536 \in Nat /\ raw % 65536 < 65536
    BY <1>5, DivMod64k
<1>7. WideHi(h, x, y) = H + raw \div 65536 /\ WideLo(h, x, y) = raw % 65536  BY DEF WideHi, WideLo
<1>8. ByteIndex(h, x, y) = 65536 * H + raw  BY <1>3, <1>4, <1>1 DEF ByteIndex
<1> HIDE DEF H, L, raw, b, xh, xl, yq
<1> QED BY <1>4, <1>5, <1>6, <1>7, <1>8
=============================================================================
