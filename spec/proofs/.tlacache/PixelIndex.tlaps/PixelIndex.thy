(* automatically generated -- do not edit manually *)
theory PixelIndex imports Constant Zenon begin
ML_command \<open> writeln ("*** TLAPS PARSED\n"); \<close>
consts
  "isReal" :: c
  "isa_slas_a" :: "[c,c] => c"
  "isa_bksl_diva" :: "[c,c] => c"
  "isa_perc_a" :: "[c,c] => c"
  "isa_peri_peri_a" :: "[c,c] => c"
  "isInfinity" :: c
  "isa_lbrk_rbrk_a" :: "[c] => c"
  "isa_less_more_a" :: "[c] => c"

end
