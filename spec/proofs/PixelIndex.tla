----------------------------- MODULE PixelIndex -----------------------------
(***************************************************************************)
(* C07, for ALL sizes (not only the model-checked box): with the documented *)
(* layout, distinct pixels never share a bit, every pixel lies inside the  *)
(* data area of the page, and the padded length is a multiple of 16 that   *)
(* exceeds the data length by less than 16.  Proved with TLAPS.            *)
(***************************************************************************)
EXTENDS Naturals, Integers, TLAPS

BPC(h) == (h + 7) \div 8                     \* bytes per column
ByteIndex(h, x, y) == 4 + x * BPC(h) + y \div 8
BitIndex(y) == y % 8
DataBytes(w, h) == 4 + w * BPC(h)
TotalBytes(w, h) == ((DataBytes(w, h) + 15) \div 16) * 16

LEMMA RowInColumn == \A h, y \in Nat : y < h => y \div 8 < BPC(h)
  BY DEF BPC

LEMMA Mono == \A a, c, b \in Nat : a >= c => a * b >= c * b
  OBVIOUS
LEMMA Dist == \A a, b \in Nat : (a + 1) * b = a * b + b
  OBVIOUS
LEMMA MulNat == \A a, b \in Nat : a * b \in Nat
  OBVIOUS

LEMMA DivMod == \A y \in Nat : y = 8 * (y \div 8) + (y % 8)
  OBVIOUS

LEMMA Lin == \A A1, A2, b, q1, q2 \in Nat : (q1 < b /\ A1 + q1 = A2 + q2 /\ A2 >= A1 + b) => FALSE
  OBVIOUS

\* the quotient/remainder argument: a*b + q determines a and q when q < b
LEMMA QuotRem == \A b, a1, a2, q1, q2 \in Nat :
                    (q1 < b /\ q2 < b /\ a1 * b + q1 = a2 * b + q2) => (a1 = a2 /\ q1 = q2)
<1> SUFFICES ASSUME NEW b \in Nat, NEW a1 \in Nat, NEW a2 \in Nat, NEW q1 \in Nat, NEW q2 \in Nat,
                    q1 < b, q2 < b, a1 * b + q1 = a2 * b + q2
             PROVE  a1 = a2 /\ q1 = q2
    OBVIOUS
<1>0. a1 * b \in Nat /\ a2 * b \in Nat  BY MulNat
<1>1. CASE a1 < a2
    <2>1. a2 >= a1 + 1 /\ a1 + 1 \in Nat  BY <1>1
    <2>2. a2 * b >= (a1 + 1) * b  BY <2>1, Mono
    <2>3. (a1 + 1) * b = a1 * b + b  BY Dist
    <2>4. a2 * b >= a1 * b + b  BY <2>2, <2>3
    <2> QED BY <2>4, <1>0, Lin
<1>2. CASE a2 < a1
    <2>1. a1 >= a2 + 1 /\ a2 + 1 \in Nat  BY <1>2
    <2>2. a1 * b >= (a2 + 1) * b  BY <2>1, Mono
    <2>3. (a2 + 1) * b = a2 * b + b  BY Dist
    <2>4. a1 * b >= a2 * b + b  BY <2>2, <2>3
    <2> QED BY <2>4, <1>0, Lin
<1>3. CASE a1 = a2
    BY <1>3, <1>0
<1> QED BY <1>1, <1>2, <1>3

THEOREM Injective ==
    \A h, x1, y1, x2, y2 \in Nat :
        (y1 < h /\ y2 < h /\ ByteIndex(h, x1, y1) = ByteIndex(h, x2, y2) /\ BitIndex(y1) = BitIndex(y2))
            => (x1 = x2 /\ y1 = y2)
<1> SUFFICES ASSUME NEW h \in Nat, NEW x1 \in Nat, NEW y1 \in Nat, NEW x2 \in Nat, NEW y2 \in Nat,
                    y1 < h, y2 < h, ByteIndex(h, x1, y1) = ByteIndex(h, x2, y2), BitIndex(y1) = BitIndex(y2)
             PROVE  x1 = x2 /\ y1 = y2
    OBVIOUS
<1>1. y1 \div 8 < BPC(h) /\ y2 \div 8 < BPC(h)  BY RowInColumn
<1>2. BPC(h) \in Nat /\ y1 \div 8 \in Nat /\ y2 \div 8 \in Nat  BY DEF BPC
<1>2a. x1 * BPC(h) \in Nat /\ x2 * BPC(h) \in Nat  BY <1>2, MulNat
<1>3. x1 * BPC(h) + y1 \div 8 = x2 * BPC(h) + y2 \div 8
    <2>1. 4 + x1 * BPC(h) + y1 \div 8 = 4 + x2 * BPC(h) + y2 \div 8  BY DEF ByteIndex
    <2> QED BY <2>1, <1>2, <1>2a
<1>4. x1 = x2 /\ y1 \div 8 = y2 \div 8
    <2> DEFINE b == BPC(h)
    <2> DEFINE q1 == y1 \div 8
    <2> DEFINE q2 == y2 \div 8
    <2>1. b \in Nat /\ q1 \in Nat /\ q2 \in Nat /\ q1 < b /\ q2 < b /\ x1 * b + q1 = x2 * b + q2  BY <1>1, <1>2, <1>3
    <2> HIDE DEF b, q1, q2
    <2>2. x1 = x2 /\ q1 = q2  BY <2>1, QuotRem
    <2> QED BY <2>2 DEF q1, q2
<1>5. y1 % 8 = y2 % 8  BY DEF BitIndex
<1>6. y1 = 8 * (y1 \div 8) + (y1 % 8) /\ y2 = 8 * (y2 \div 8) + (y2 % 8)  BY DivMod
<1> QED BY <1>4, <1>5, <1>6

THEOREM InDataArea ==
    \A w, h, x, y \in Nat : (x < w /\ y < h) => (ByteIndex(h, x, y) >= 4 /\ ByteIndex(h, x, y) < DataBytes(w, h))
<1> SUFFICES ASSUME NEW w \in Nat, NEW h \in Nat, NEW x \in Nat, NEW y \in Nat, x < w, y < h
             PROVE  ByteIndex(h, x, y) >= 4 /\ ByteIndex(h, x, y) < DataBytes(w, h)
    OBVIOUS
<1>1. y \div 8 < BPC(h)  BY RowInColumn
<1>2. BPC(h) \in Nat /\ y \div 8 \in Nat  BY DEF BPC
<1> DEFINE b == BPC(h)
<1> DEFINE q == y \div 8
<1>3. b \in Nat /\ q \in Nat /\ q < b  BY <1>1, <1>2
<1>4. ByteIndex(h, x, y) = 4 + x * b + q /\ DataBytes(w, h) = 4 + w * b  BY DEF ByteIndex, DataBytes
<1> HIDE DEF b, q
<1>5. w >= x + 1 /\ x + 1 \in Nat  OBVIOUS
<1>6. w * b >= (x + 1) * b  BY <1>3, <1>5, Mono
<1>7. (x + 1) * b = x * b + b  BY <1>3, Dist
<1>8. x * b \in Nat /\ w * b \in Nat  BY <1>3, MulNat
<1>9. 4 + x * b + q >= 4 /\ 4 + x * b + q < 4 + w * b  BY <1>3, <1>6, <1>7, <1>8
<1> QED BY <1>4, <1>9

THEOREM Padding ==
    \A n \in Nat : LET t == ((n + 15) \div 16) * 16 IN t % 16 = 0 /\ t >= n /\ t - n < 16
  OBVIOUS
=============================================================================
