----------------------------- MODULE Controller -----------------------------
(***************************************************************************)
(* The controller side of the protocol (the documented behaviour of        *)
(* configure, configure_if_needed, send_pages, show_loaded_page,           *)
(* load_next_page and shut_down) as a Mealy machine:                       *)
(*                                                                         *)
(*   CMsg(c)     the message the controller sends next in state c          *)
(*   Recv(c, r)  the state after the bus answered r                        *)
(*                                                                         *)
(* r is a message record, NoReply (kind "None") or BusErr (kind            *)
(* "BusError").  One program counter per exchange of the documented        *)
(* protocol; c.out = "" while the call is running, afterwards one of       *)
(* "Ok", "Ok:Automatic", "Ok:Manual", "ProtocolError", "BusError".         *)
(***************************************************************************)
EXTENDS Message, SignType

MaxAttempts == 3

Calls == {"configure", "configure_if_needed", "send_pages", "show", "load", "shut_down"}

\* operation, success state and failure state of the transfer a call performs
XferOp(call)   == IF call = "send_pages" THEN "ReceivePixels" ELSE "ReceiveConfig"
XferOk(call)   == IF call = "send_pages" THEN "PixelsReceived" ELSE "ConfigReceived"
XferFail(call) == IF call = "send_pages" THEN "PixelsFailed" ELSE "ConfigFailed"

\* page switching: target state, trigger state, operation
SwTarget(call)  == IF call = "show" THEN "PageShown" ELSE "PageLoaded"
SwTrigger(call) == IF call = "show" THEN "PageLoaded" ELSE "PageShown"
SwOp(call)      == IF call = "show" THEN "ShowLoadedPage" ELSE "LoadNextPage"

ReadyStates == {"ConfigReceived", "ShowingPages", "PageLoaded", "PageShowInProgress", "PageShown", "PageLoadInProgress"}

\* entry state of a call.  items: the byte strings to transfer (the config block, or the pages)
Call(me, name, items) ==
    [me |-> me, call |-> name, items |-> items,
     pc |-> CASE name = "configure" -> "cfg_hello"
              [] name = "configure_if_needed" -> "cin_hello"
              [] name = "send_pages" -> "xfer_req"
              [] name \in {"show", "load"} -> "sw_query"
              [] name = "shut_down" -> "bye",
     att |-> 1, i |-> 1, j |-> 1, sent |-> 0, out |-> ""]

Done(c, out) == [c EXCEPT !.pc = "done", !.out = out]
Goto(c, pc)  == [c EXCEPT !.pc = pc]

\* position of the first chunk at or after item i (items without bytes have no chunks); 0 if none
FirstItemFrom(c, i) == IF \E k \in i..Len(c.items) : Len(c.items[k]) > 0
                       THEN CHOOSE k \in i..Len(c.items) : Len(c.items[k]) > 0 /\ \A k2 \in i..(k - 1) : Len(c.items[k2]) = 0
                       ELSE 0

StartXfer(c) == [c EXCEPT !.pc = "xfer_req", !.sent = 0, !.i = 1, !.j = 1]

AfterAck(c) == LET k == FirstItemFrom(c, 1) IN
               IF k = 0 THEN Goto(c, "xfer_count") ELSE [c EXCEPT !.pc = "xfer_chunk", !.i = k, !.j = 1]

AfterChunk(c) ==
    LET sent2 == c.sent + 1 IN
    IF c.j < NumChunks(c.items[c.i], 16)
    THEN [c EXCEPT !.j = @ + 1, !.sent = sent2]
    ELSE LET k == FirstItemFrom(c, c.i + 1) IN
         IF k = 0 THEN [c EXCEPT !.pc = "xfer_count", !.sent = sent2]
         ELSE [c EXCEPT !.i = k, !.j = 1, !.sent = sent2]

\* the message sent in state c
CMsg(c) ==
    CASE c.pc \in {"cfg_hello", "cin_hello", "rst_hello_rtr", "rst_hello_unc"} -> Hello(c.me)
      [] c.pc = "rst_start"   -> RequestOperation(c.me, "StartReset")
      [] c.pc = "rst_finish"  -> RequestOperation(c.me, "FinishReset")
      [] c.pc = "xfer_req"    -> RequestOperation(c.me, XferOp(c.call))
      [] c.pc = "xfer_chunk"  -> SendData((16 * (c.j - 1)) % 65536, Chunk(c.items[c.i], 16, c.j))
      [] c.pc = "xfer_count"  -> DataChunksSent(c.sent % 65536)
      [] c.pc \in {"xfer_query", "flip_query", "sw_query"} -> QueryState(c.me)
      [] c.pc = "pix_complete" -> PixelsComplete(c.me)
      [] c.pc = "sw_req"      -> RequestOperation(c.me, SwOp(c.call))
      [] c.pc = "bye"         -> Goodbye(c.me)

\* "the reply must be exactly x": continue with k, else protocol error (bus error propagates)
Expect(c, r, x, k) == IF r = BusErr THEN Done(c, "BusError")
                      ELSE IF r = x THEN k ELSE Done(c, "ProtocolError")

Recv(c, r) ==
    CASE c.pc = "cin_hello" ->
            IF r = BusErr THEN Done(c, "BusError")
            ELSE IF r.k = "ReportState" /\ r.a = c.me /\ r.s \in ReadyStates THEN Done(c, "Ok")
            ELSE Goto(c, "cfg_hello")
      [] c.pc = "cfg_hello" ->
            IF r = BusErr THEN Done(c, "BusError")
            ELSE IF r = ReportState(c.me, "Unconfigured") THEN StartXfer(c)
            ELSE IF r = ReportState(c.me, "ReadyToReset") THEN Goto(c, "rst_finish")
            ELSE Goto(c, "rst_start")
      [] c.pc = "rst_start"     -> Expect(c, r, AckOperation(c.me, "StartReset"), Goto(c, "rst_hello_rtr"))
      [] c.pc = "rst_hello_rtr" -> Expect(c, r, ReportState(c.me, "ReadyToReset"), Goto(c, "rst_finish"))
      [] c.pc = "rst_finish"    -> Expect(c, r, AckOperation(c.me, "FinishReset"), Goto(c, "rst_hello_unc"))
      [] c.pc = "rst_hello_unc" -> Expect(c, r, ReportState(c.me, "Unconfigured"), StartXfer(c))
      [] c.pc = "xfer_req"      -> Expect(c, r, AckOperation(c.me, XferOp(c.call)), AfterAck(c))
      [] c.pc = "xfer_chunk"    -> Expect(c, r, NoReply, AfterChunk(c))
      [] c.pc = "xfer_count"    -> Expect(c, r, NoReply, Goto(c, "xfer_query"))
      [] c.pc = "xfer_query" ->
            IF r = BusErr THEN Done(c, "BusError")
            ELSE IF r = ReportState(c.me, XferFail(c.call)) /\ c.att < MaxAttempts
                 THEN [StartXfer(c) EXCEPT !.att = c.att + 1]
            ELSE IF r = ReportState(c.me, XferOk(c.call))
                 THEN (IF c.call = "send_pages" THEN Goto(c, "pix_complete") ELSE Done(c, "Ok"))
            ELSE Done(c, "ProtocolError")
      [] c.pc = "pix_complete"  -> Expect(c, r, NoReply, Goto(c, "flip_query"))
      [] c.pc = "flip_query" ->
            IF r = BusErr THEN Done(c, "BusError")
            ELSE IF r = ReportState(c.me, "ShowingPages") THEN Done(c, "Ok:Automatic")
            ELSE Done(c, "Ok:Manual")
      [] c.pc = "sw_query" ->
            IF r = BusErr THEN Done(c, "BusError")
            ELSE IF r.k = "ReportState" /\ r.a = c.me /\ r.s \in {"ShowingPages", SwTarget(c.call)} THEN Done(c, "Ok")
            ELSE IF r = ReportState(c.me, SwTrigger(c.call)) THEN Goto(c, "sw_req")
            ELSE IF r.k = "ReportState" /\ r.a = c.me /\ r.s \in {"PageLoadInProgress", "PageShowInProgress"} THEN c
            ELSE Done(c, "ProtocolError")
      [] c.pc = "sw_req" -> Expect(c, r, AckOperation(c.me, SwOp(c.call)), Goto(c, "sw_query"))
      [] c.pc = "bye"    -> Expect(c, r, NoReply, Done(c, "Ok"))

Running(c) == c.out = ""

(***************************************************************************)
(* Reference-free monitors on a conversation.  A conversation is the       *)
(* sequence of exchanges [m, r] of one call; they are stated on the log    *)
(* alone and never consult CMsg/Recv.                                      *)
(***************************************************************************)

\* ---- C09: transfers are complete, ordered, correctly offset and counted --
\* monitor state: ph "idle" | "acked" | "counted" | "bad"; i item, pos bytes of item i already sent; sent chunks
Mon0 == [ph |-> "idle", i |-> 1, pos |-> 0, sent |-> 0, why |-> ""]
Bad(why) == [ph |-> "bad", i |-> 0, pos |-> 0, sent |-> 0, why |-> why]

\* skip exhausted / empty items
RECURSIVE SkipItems(_, _, _)
SkipItems(items, i, pos) == IF i <= Len(items) /\ pos >= Len(items[i]) THEN SkipItems(items, i + 1, 0) ELSE <<i, pos>>

XferMon(mon, me, op, items, m, r) ==
    IF mon.ph = "bad" THEN mon
    ELSE IF m.k = "RequestOperation" /\ m.s \in {"ReceiveConfig", "ReceivePixels"}
    THEN IF mon.ph # "idle" THEN Bad("a new receive request before the previous transfer was counted and queried")
         ELSE IF m.s # op \/ m.a # me THEN Bad("receive request for the wrong operation or address")
         ELSE IF r = AckOperation(me, op) THEN [ph |-> "acked", i |-> 1, pos |-> 0, sent |-> 0, why |-> ""]
         ELSE [mon EXCEPT !.ph = "unacked"]
    ELSE IF m.k = "SendData"
    THEN IF mon.ph # "acked" THEN Bad("data chunk without an acknowledged receive request")
         ELSE LET p == SkipItems(items, mon.i, mon.pos)
                  i == p[1]
                  pos == p[2]
              IN  IF i > Len(items) THEN Bad("more data chunks than the items contain")
                  ELSE IF Len(m.d) < 1 \/ Len(m.d) > 16 THEN Bad("chunk of 0 or more than 16 bytes")
                  ELSE IF m.a # pos % 65536 THEN Bad("wrong chunk offset")
                  ELSE IF m.d # SubSeq(items[i], pos + 1, MinN(pos + 16, Len(items[i]))) THEN Bad("chunk bytes differ from the item's bytes at that offset")
                  ELSE [mon EXCEPT !.i = i, !.pos = pos + Len(m.d), !.sent = @ + 1]
    ELSE IF m.k = "DataChunksSent"
    THEN IF mon.ph # "acked" THEN Bad("chunk count without an acknowledged receive request")
         ELSE IF SkipItems(items, mon.i, mon.pos)[1] <= Len(items) THEN Bad("chunk count announced before all items were sent")
         ELSE IF m.a # mon.sent % 65536 THEN Bad("announced chunk count differs from the number of chunks sent since the request")
         ELSE [mon EXCEPT !.ph = "counted"]
    ELSE IF mon.ph = "unacked" THEN Bad("the controller went on after a receive request that was not acknowledged")
    ELSE IF m.k = "QueryState" /\ mon.ph = "counted" THEN [mon EXCEPT !.ph = "idle"]
    ELSE IF mon.ph \in {"acked", "counted"} THEN Bad("another message in the middle of a transfer")
    ELSE mon

\* at the return of a call: a successful configure / send_pages has completed a transfer
XferMonReturn(mon, call, out, ntransfers) ==
    IF mon.ph = "bad" THEN mon
    ELSE IF out \in {"Ok", "Ok:Automatic", "Ok:Manual"} /\ call \in {"configure", "send_pages"} /\ (mon.ph # "idle" \/ ntransfers = 0)
         THEN Bad("success without a completed transfer")
    ELSE mon

\* ---- C11: no unconfirmed success, fail-stop, bounded retries, own address only
IsXferReq(x) == x.m.k = "RequestOperation" /\ x.m.s \in {"ReceiveConfig", "ReceivePixels"}
XferReqs(log) == { n \in 1..Len(log) : IsXferReq(log[n]) }
\* queries that ask for a transfer's result: a QueryState directly after a DataChunksSent
ResultQueries(log) == { n \in 2..Len(log) : log[n].m.k = "QueryState" /\ log[n - 1].m.k = "DataChunksSent" }
MaxOf(S) == CHOOSE n \in S : \A k \in S : k <= n
AddressedKinds == {"Hello", "QueryState", "RequestOperation", "PixelsComplete", "Goodbye", "ReportState", "AckOperation"}
IsForeign(r, me) == r.k \in AddressedKinds /\ r.a # me

\* which replies let the conversation go on after exchange n (derived from the log only)
Allowed(log, n, me, call) ==
    LET m == log[n].m
        r == log[n].r
        prev == IF n > 1 THEN log[n - 1].m ELSE NoReply
        att == Cardinality({ k \in XferReqs(log) : k < n })
        lastop == IF XferReqs(log) \cap (1..n) = {} THEN "" ELSE log[MaxOf(XferReqs(log) \cap (1..n))].m.s
    IN  CASE m.k = "RequestOperation" -> r = AckOperation(me, m.s)
          [] m.k \in {"SendData", "DataChunksSent", "PixelsComplete", "Goodbye"} -> r = NoReply
          [] m.k = "Hello" ->
                IF prev.k = "RequestOperation" /\ prev.s = "StartReset" THEN r = ReportState(me, "ReadyToReset")
                ELSE IF prev.k = "RequestOperation" /\ prev.s = "FinishReset" THEN r = ReportState(me, "Unconfigured")
                ELSE r # BusErr
          [] m.k = "QueryState" ->
                IF prev.k = "DataChunksSent"
                THEN \/ r = ReportState(me, IF lastop = "ReceivePixels" THEN "PixelsReceived" ELSE "ConfigReceived")
                     \/ r = ReportState(me, IF lastop = "ReceivePixels" THEN "PixelsFailed" ELSE "ConfigFailed") /\ att < MaxAttempts
                ELSE IF prev.k = "PixelsComplete" THEN r # BusErr
                ELSE r.k = "ReportState" /\ r.a = me /\ r.s \in {"ShowingPages", "PageShown", "PageLoaded", "PageLoadInProgress", "PageShowInProgress"}
          [] OTHER -> TRUE

C11Log(log, me, call) ==
    \* every addressed message carries the controller's own address
    /\ \A n \in 1..Len(log) : log[n].m.k \in AddressedKinds => log[n].m.a = me
    \* fail-stop: a bus error or a reply that is not allowed at that point is the last exchange of the call
    /\ \A n \in 1..Len(log) : (log[n].r = BusErr \/ ~Allowed(log, n, me, call)) => n = Len(log)
    \* at most three transfer attempts
    /\ Cardinality(XferReqs(log)) <= MaxAttempts
    \* a retry only directly after the own 'failed' report that answered the result query
    /\ \A n \in XferReqs(log) : (\E k \in XferReqs(log) : k < n) =>
            /\ n - 1 \in ResultQueries(log)
            /\ log[n - 1].r = ReportState(me, IF log[n].m.s = "ReceivePixels" THEN "PixelsFailed" ELSE "ConfigFailed")
    \* a foreign reply never advances the conversation the way the own one would
    /\ \A n \in 1..(Len(log) - 1) : IsForeign(log[n].r, me) =>
            /\ log[n].m.k = "Hello"          \* the only places where any reply lets the call continue
            /\ log[n + 1].m \in {Hello(me), RequestOperation(me, "StartReset")}

C11Return(log, me, call, out) ==
    /\ C11Log(log, me, call)
    \* no unconfirmed success
    /\ (out \in {"Ok", "Ok:Automatic", "Ok:Manual"} /\ call \in {"configure", "send_pages"} =>
            /\ ResultQueries(log) # {}
            /\ log[MaxOf(ResultQueries(log))].r = ReportState(me, XferOk(call)))
    /\ (out \in {"Ok"} /\ call = "configure_if_needed" =>
            \/ ResultQueries(log) # {} /\ log[MaxOf(ResultQueries(log))].r = ReportState(me, "ConfigReceived")
            \/ Len(log) = 1 /\ log[1].r.k = "ReportState" /\ log[1].r.a = me)
    \* outcome after the last exchange
    /\ (Len(log) > 0 /\ log[Len(log)].r = BusErr => out = "BusError")
    /\ (Len(log) > 0 /\ log[Len(log)].r # BusErr /\ ~Allowed(log, Len(log), me, call) => out = "ProtocolError")
    /\ (out = "BusError" => Len(log) > 0 /\ log[Len(log)].r = BusErr)
    \* a foreign report at the closing flip query is not the own ShowingPages
    /\ (out = "Ok:Automatic" => log[Len(log)].r = ReportState(me, "ShowingPages"))
=============================================================================
