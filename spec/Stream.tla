------------------------------- MODULE Stream -------------------------------
(***************************************************************************)
(* Frames over byte streams with an adversarial I/O schedule.              *)
(*                                                                         *)
(* A reader is a record [src, pos, got, out]:                              *)
(*   src  the whole byte stream, pos how many bytes have been consumed,    *)
(*   got  bytes collected for the current frame, out Pending while reading,     *)
(*   then the decode result or IoErr.                                      *)
(* Every read call of the reader asks for Req bytes and the environment    *)
(* answers with k bytes (1 <= k <= min(Req, available)), an interrupt,     *)
(* a hard error, or end of stream.  The contract of read-a-frame:          *)
(* consume up to and including the first line feed and not one byte more;  *)
(* interrupts are invisible; the result is Decode(line).                   *)
(*                                                                         *)
(* A writer is [want, done, out]: want = EncodeNL(f), done = bytes the     *)
(* sink has accepted.  Each write call offers the remaining bytes and the  *)
(* sink accepts 1..limit of them, reports an interrupt, accepts 0, or      *)
(* fails.  Contract: everything delivered, or a proper prefix + IoErr.     *)
(***************************************************************************)
EXTENDS Frame

IoErr == Res("io", 0, 0, <<>>, 0, 0)

\* ---- reading -------------------------------------------------------------
Req == 1      \* the reader asks for one byte at a time: it cannot push back what follows the line feed

Pending == Res("pending", 0, 0, <<>>, 0, 0)
NewReader(src, pos) == [src |-> src, pos |-> pos, got |-> <<>>, out |-> Pending]
Reading(r) == r.out = Pending
Avail(r) == Len(r.src) - r.pos

\* the environment hands over k bytes
ReadBytes(r, k) ==
    LET chunk == SubSeq(r.src, r.pos + 1, r.pos + k)
        got2 == r.got \o chunk
    IN  IF chunk[k] = LF THEN [r EXCEPT !.pos = @ + k, !.got = got2, !.out = Decode(got2)]
        ELSE [r EXCEPT !.pos = @ + k, !.got = got2]
ReadIntr(r) == r
ReadFail(r) == [r EXCEPT !.out = IoErr]
ReadEof(r)  == [r EXCEPT !.out = Decode(r.got)]

\* the line the next read-a-frame call must consume, from position pos
LineFrom(src, pos) ==
    LET lfs == { i \in (pos + 1)..Len(src) : src[i] = LF }
    IN  IF lfs = {} THEN SubSeq(src, pos + 1, Len(src))
        ELSE SubSeq(src, pos + 1, CHOOSE i \in lfs : \A j \in lfs : i <= j)

\* contract of one completed read-a-frame call that started at pos0 (no hard error)
ReadContract(src, pos0, r) ==
    /\ r.pos = pos0 + Len(LineFrom(src, pos0))          \* exactly one line consumed, not a byte more
    /\ r.out = Decode(LineFrom(src, pos0))

\* ---- writing -------------------------------------------------------------
NewWriter(f) == [want |-> EncodeNL(f), done |-> 0, out |-> ""]
Writing(w) == w.out = ""
Remaining(w) == SubSeq(w.want, w.done + 1, Len(w.want))

WriteAccept(w, k) == LET d == w.done + k IN
                     IF d = Len(w.want) THEN [w EXCEPT !.done = d, !.out = "ok"] ELSE [w EXCEPT !.done = d]
WriteIntr(w) == w
WriteZero(w) == [w EXCEPT !.out = "io"]
WriteFail(w) == [w EXCEPT !.out = "io"]

WriteContract(w) ==
    /\ (w.out = "ok" => w.done = Len(w.want))
    /\ (w.out = "io" => w.done < Len(w.want))
=============================================================================
