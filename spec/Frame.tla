------------------------------- MODULE Frame -------------------------------
(***************************************************************************)
(* The Intel-HEX frame codec of the Luminator protocol.                    *)
(*                                                                         *)
(*   ':' LL AAAA TT DD..DD CC [CR LF]                                      *)
(*                                                                         *)
(* LL = number of data bytes, AAAA = address (big endian), TT = message    *)
(* type, DD = data, CC = checksum making the sum of all bytes 0 mod 256.   *)
(* Written from the format diagram in the documentation: Encode is the     *)
(* documented shape, Decode is an independent parser.                      *)
(***************************************************************************)
EXTENDS Bytes

\* A frame is a record [addr \in Word, type \in Byte, data \in Seq(Byte)], Len(data) <= 255.
MkFrame(a, t, d) == [addr |-> a, type |-> t, data |-> d]
IsFrame(f) == f.addr \in Word /\ f.type \in Byte /\ IsByteSeq(f.data) /\ Len(f.data) <= 255

Payload(f) == <<Len(f.data), f.addr \div 256, f.addr % 256, f.type>> \o f.data

Encode(f)   == <<Colon>> \o HexText(Payload(f) \o <<LRC(Payload(f))>>)
EncodeNL(f) == Encode(f) \o <<CR, LF>>

\* Data::try_new
TryNewData(len) == IF len > 255 THEN [res |-> "toolong", max |-> 255, actual |-> len]
                   ELSE [res |-> "ok", max |-> 0, actual |-> 0]

(***************************************************************************)
(* Decoder results: a uniform record so that results are always comparable.*)
(*   kind = "ok"       : addr, type, data                                  *)
(*   kind = "invalid"  : malformed text                                    *)
(*   kind = "mismatch" : expected = declared length, actual = data pairs   *)
(*   kind = "badsum"   : expected = declared checksum, actual = computed   *)
(***************************************************************************)
Res(kind, a, t, d, e, x) == [kind |-> kind, addr |-> a, type |-> t, data |-> d, expected |-> e, actual |-> x]
Ok(f)            == Res("ok", f.addr, f.type, f.data, 0, 0)
Invalid          == Res("invalid", 0, 0, <<>>, 0, 0)
Mismatch(e, x)   == Res("mismatch", 0, 0, <<>>, e, x)
BadSum(e, x)     == Res("badsum", 0, 0, <<>>, e, x)

\* Declarative well-formedness of the text: ':' + an even number (>= 10) of hex digits
\* + optionally one CR LF, nothing before and nothing after.
Wellformed(s) ==
    \E body \in {s, StripNL(s)} :
        /\ Len(body) >= 11
        /\ Len(body) % 2 = 1
        /\ body[1] = Colon
        /\ \A i \in 2..Len(body) : IsHex(body[i])
        /\ (body # s => s = body \o <<CR, LF>>)

Decode(s) ==
    LET t == StripNL(s)
        n == Len(t)
    IN  IF n < 11 \/ n % 2 = 0 \/ t[1] # Colon \/ (\E i \in 2..n : ~IsHex(t[i]))
        THEN Invalid
        ELSE LET nb == (n - 1) \div 2                     \* number of hex pairs, >= 5
                 B(i) == PairVal(t[2 * i], t[2 * i + 1])
                 declared == B(1)
                 actual == nb - 5
                 data == [i \in 1..actual |-> B(4 + i)]
                 computed == LRC(<<B(1), B(2), B(3), B(4)>> \o data)
             IN  IF declared # actual THEN Mismatch(declared, actual)
                 ELSE IF B(nb) # computed THEN BadSum(B(nb), computed)
                 ELSE Res("ok", 256 * B(2) + B(3), B(4), data, 0, 0)

FrameOf(r) == MkFrame(r.addr, r.type, r.data)      \* for r.kind = "ok"

(***************************************************************************)
(* Property-level predicates, stated on the bytes themselves (reference-   *)
(* free: they do not mention Encode).                                      *)
(***************************************************************************)
\* enc has the documented shape for frame f.
ShapeOK(f, enc) ==
    LET n == Len(f.data) IN
    /\ Len(enc) = 1 + 2 * (n + 5)
    /\ enc[1] = Colon
    /\ \A i \in 2..Len(enc) : IsUpperHex(enc[i])
    /\ PairVal(enc[2], enc[3]) = n
    /\ PairVal(enc[4], enc[5]) = f.addr \div 256
    /\ PairVal(enc[6], enc[7]) = f.addr % 256
    /\ PairVal(enc[8], enc[9]) = f.type
    /\ \A i \in 1..n : PairVal(enc[8 + 2 * i], enc[9 + 2 * i]) = f.data[i]

\* all encoded bytes (including the checksum) sum to 0 mod 256
SumZero(enc) ==
    LET nb == (Len(enc) - 1) \div 2 IN
    SumSeq([i \in 1..nb |-> PairVal(enc[2 * i], enc[2 * i + 1])]) % 256 = 0

(***************************************************************************)
(* Transit damage (C02).                                                   *)
(***************************************************************************)
Subst(s, i, c) == [s EXCEPT ![i] = c]
Delete(s, i)   == SubSeq(s, 1, i - 1) \o SubSeq(s, i + 1, Len(s))
Dup(s, i)      == SubSeq(s, 1, i) \o SubSeq(s, i, Len(s))
Swap(s, i)     == [s EXCEPT ![i] = s[i + 1], ![i + 1] = s[i]]
Prefix(s, k)   == SubSeq(s, 1, k)

Corruptions(s, alphabet) ==
       { Subst(s, i, c) : i \in 1..Len(s), c \in alphabet }
  \cup { Delete(s, i) : i \in 1..Len(s) }
  \cup { Dup(s, i) : i \in 1..Len(s) }
  \cup { Swap(s, i) : i \in { j \in 1..(Len(s) - 1) : s[j] # s[j + 1] } }
  \cup { Prefix(s, k) : k \in 0..(Len(s) - 1) }

\* What C02 demands of the decoding result r of a damaged encoding of f.
DamageSafe(f, r) == r.kind # "ok" \/ r = Ok(f)
=============================================================================
