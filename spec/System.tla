------------------------------- MODULE System -------------------------------
(***************************************************************************)
(* Compositions: the controller talking to a bus of virtual signs.         *)
(*   SysStep   one exchange: the controller's next message is delivered to *)
(*             the bus and the bus's reply is fed back                     *)
(*   RunCall   a whole call, run to completion                             *)
(* and the postconditions C08 states for each controller call.             *)
(***************************************************************************)
EXTENDS Controller, Bus

SysStep(c, signs) ==
    LET x == BusStep(signs, CMsg(c)) IN [c |-> Recv(c, x.r), signs |-> x.signs]

RECURSIVE RunCall(_, _, _)
RunCall(c, signs, fuel) ==
    IF ~Running(c) \/ fuel = 0 THEN [c |-> c, signs |-> signs]
    ELSE LET y == SysStep(c, signs) IN RunCall(y.c, y.signs, fuel - 1)

\* the pages a sign of size w x h must hold after send_pages(items)
WantPages(items, w, h) == [k \in 1..Len(items) |-> MkPage(w, h, items[k])]

ReadyObsStates == {"ConfigReceived", "ShowingPages", "PageLoaded", "PageShowInProgress", "PageShown", "PageLoadInProgress"}

(***************************************************************************)
(* C08 postconditions on observations: call name, the type/dimensions the  *)
(* controller was created with, the sign's flip style, the projection      *)
(* before and after, the outcome.  typ is the projected type name ("None"  *)
(* for a size no SignType describes).                                      *)
(***************************************************************************)
PostConfigure(out, after, typ) ==
    out = "Ok" /\ after = [st |-> "ConfigReceived", typ |-> typ, pages |-> <<>>]

\* configure-if-needed is only called when the sign is not ready or already records this type
CinApplicable(before, typ) == before.st \notin ReadyObsStates \/ (before.typ = typ /\ typ # "None")
\* a hello/query lets an in-progress load/show complete
Completed(st) == IF st = "PageLoadInProgress" THEN "PageLoaded" ELSE IF st = "PageShowInProgress" THEN "PageShown" ELSE st
PostCin(out, before, after, typ) ==
    /\ out = "Ok"
    /\ after.typ = typ
    /\ after.st \in ReadyObsStates
    /\ (before.st \in ReadyObsStates => after = [before EXCEPT !.st = Completed(@)])
    /\ (before.st \notin ReadyObsStates => after = [st |-> "ConfigReceived", typ |-> typ, pages |-> <<>>])

PostSendPages(out, after, flip, items, w, h) ==
    /\ out = (IF flip = "Automatic" THEN "Ok:Automatic" ELSE "Ok:Manual")
    /\ after.st = (IF flip = "Automatic" THEN "ShowingPages" ELSE "PageLoaded")
    /\ after.pages = WantPages(items, w, h)

PostSwitch(call, out, before, after, flip) ==
    /\ out = "Ok"
    /\ after.pages = before.pages /\ after.typ = before.typ
    /\ (flip = "Automatic" => after = before)
    /\ (flip = "Manual" => after.st = (IF call = "show" THEN "PageShown" ELSE "PageLoaded"))
=============================================================================
