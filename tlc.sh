#!/bin/sh
# usage: tlc.sh <metadir> <args...>   (run from the directory holding the root module)
md="$1"; shift
exec java -XX:+UseParallelGC ${TLC_JAVA_OPTS:-} -DTLA-Library=/verif/spec:/verif/spec/mc:/verif/spec/trace:/verif/spec/proofs:/opt/veriftools/tlapm/lib/tlapm/stdlib -cp /opt/veriftools/tla/tla2tools.jar:/opt/veriftools/tla/CommunityModules-deps.jar tlc2.TLC -metadir "$md" -cleanup -noGenerateSpecTE "$@"
