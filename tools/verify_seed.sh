#!/bin/sh
# usage: verify_seed.sh <worktree> <id> <a|b>   -- confirms a seeded change: suite passes with it, demo fails with it, demo passes without it
wt="$1"; id="$2"; ab="$3"; out=/tmp/mut/out/$id
cd "$wt" || exit 2
git checkout -q -- . ; git clean -fdq -e target
res="$out/verify_$ab.txt"; : > "$res"
cp "$out/demo_$ab.rs" tests/zz_demo.rs
if cargo test --offline --test zz_demo >/dev/null 2>&1; then echo "demo_without_change=pass" >> "$res"; else echo "demo_without_change=FAIL" >> "$res"; fi
rm tests/zz_demo.rs
git apply "$out/$ab.diff" || { echo "apply=FAIL" >> "$res"; exit 1; }
if cargo test --workspace --no-fail-fast --offline >/dev/null 2>&1; then echo "suite_with_change=pass" >> "$res"; else echo "suite_with_change=FAIL" >> "$res"; fi
cp "$out/demo_$ab.rs" tests/zz_demo.rs
if cargo test --offline --test zz_demo >/dev/null 2>&1; then echo "demo_with_change=PASS(bad)" >> "$res"; else echo "demo_with_change=fail" >> "$res"; fi
rm tests/zz_demo.rs
git checkout -q -- . ; git clean -fdq -e target
cat "$res" | tr '\n' ' '; echo
