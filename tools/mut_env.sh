#!/bin/sh
# Sets up / refreshes a private copy of /verif (at its committed HEAD) and of /repo for trying patches without
# disturbing checks that run in /verif against /repo:   tools/mut_env.sh   then   tools/try_patch2.sh <patch> <tier> <Cnn>...
set -e
V=${V:-/tmp/v2}; R=${R:-/tmp/mut/repo2}
if [ ! -d $R ]; then git -C /repo worktree add --detach $R HEAD -q; fi
git -C $R checkout -q --detach $(git -C /repo rev-parse HEAD); git -C $R checkout -q -- .
if [ ! -d $V ]; then git -C /verif worktree add --detach $V HEAD -q; fi
git -C $V checkout -q -- . ; git -C $V checkout -q --detach $(git -C /verif rev-parse HEAD)
sed -i "s#\"/repo#\"$R#g" $V/harness/Cargo.toml
echo "mutant environment: $V (verif @ $(git -C $V rev-parse --short HEAD)) against $R"
