#!/usr/bin/env python3
"""Regenerates /verif/MANIFEST.json from the table below (one source of truth) and validates it."""
import json
import os
import subprocess
import sys

ROOT = os.path.dirname(os.path.dirname(os.path.abspath(__file__)))

TECH_MGV = ("TLA+ specification model-checked with TLC (M), TLC-generated vectors/behaviours replayed into the real code (G), "
            "and NDJSON traces recorded from the real code validated by TLC against the same specification (V)")

# property -> (category, text, note, design_ref, technique)
CLAIMS = {
    "C01": ("model_checking",
            "Frame.tla states the documented Intel-HEX shape (Encode) and an independent parser (Decode). TLC checks shape, zero-sum, "
            "round trip with/without CRLF and the 255-byte limit on every frame of a boundary domain; each model frame is replayed into the "
            "real codec (owned and borrowed data); and frames recorded from the real codec over the full domain (every address in thorough, every "
            "type, every length, every byte value) are validated event by event by TLC. A pure function has no interleavings, so bounded "
            "exhaustive model checking plus two-way conformance over the full domain is the right level.",
            "Trusted: TLC, the transcription of the documented format into Frame.tla, serde_json I/O. Bounded: quick samples 2061 addresses.",
            "DESIGN.md section 5 C01", TECH_MGV),
    "C02": ("model_checking",
            "TLC proves on the model that the wire FORMAT detects each single damage of the five named classes for every frame of a bounded domain (all 256 replacement bytes in thorough). For sample frames (255-byte ones in thorough) the harness's own reference encoder produces the valid encoding (checked against Frame!Encode), applies every position x every byte substitution, every deletion, duplication, unequal adjacent swap and proper prefix, decodes each with the real decoder, and TLC checks each verdict: an error or exactly the original frame, and nothing that Frame!Decode classifies as length mismatch or bad checksum is accepted. (Agreement of the decoder with Decode on arbitrary strings is C03's business.)",
            "Trusted: TLC, Frame.tla. Damage = one application of one class to a valid encoding. Frames are sampled (all damages of each are exhaustive).",
            "DESIGN.md section 5 C02", TECH_MGV),
    "C03": ("model_checking",
            "TLC checks Decode against the declarative Wellformed/consistency predicates on all strings up to length 3 (4 in thorough) over the "
            "12-character structural alphabet and on prefix x body x suffix variations of valid encodings; every one of those strings is replayed "
            "into Frame::from_bytes under catch_unwind; random, mutated and field-synthesised byte strings over all 256 values are decoded by the real "
            "code and validated by TLC (verdict class, reported fields, precedence, re-encoding).",
            "Trusted: TLC, Frame.tla. Long strings are sampled, not enumerated.",
            "DESIGN.md section 5 C03", TECH_MGV),
    "C04": ("model_checking",
            "Message.tla holds the protocol code table as data. TLC checks Frame->Message->Frame identity, recognition = table membership and "
            "address preservation over all types x all first bytes x lengths {0,1,2,3,16,255}; every pair is replayed through Message::from / "
            "Frame::from; conversions recorded from the real code for every recognised code over the address range (all 65536 in thorough), all "
            "near misses and random frames are validated by TLC.",
            "Trusted: TLC, the transcription of the documented table (from the property text and rustdoc) into Message.tla.",
            "DESIGN.md section 5 C04", TECH_MGV),
    "C05": ("model_checking",
            "TLC checks Message->Frame->wire->Frame->Message identity and pairwise distinct wires over the bounded message set; each model message is replayed into the real code; every kind x addresses/offsets/counts across the 16-bit range x all states x all operations and SendData of every length 0..=255 goes through the real Message->Frame->bytes->Frame->Message path and TLC checks that the same message comes back (which wire bytes are used is C01/C04's business; distinct messages cannot share a wire encoding if each comes back from its own).",
            "Trusted: TLC, Message.tla, Frame.tla. Injectivity on the real code follows from the per-message round trip.",
            "DESIGN.md section 5 C05", TECH_MGV),
    "C06": ("model_checking",
            "Page.tla models a page as its byte image with set/get/set-all and the C06 relations. TLC explores every byte image reachable for every size of a small exhaustive box and checks the relations for every operation from every image; each model transition is replayed on a page from Page::new and on one over borrowed bytes; random operation sequences on real, random, tall (2 x 2050) and zero-sized pages are judged by TLC on the full projection (every pixel through get_pixel, id, dimensions, length, header, padding), and huge pages (1 x 16 777 217, 40 000 x 9, ...) on a sparse projection (changed bytes, header/padding preserved, before/after readings of a probe set).",
            "Trusted: TLC. Exhaustive only inside the box (area <= 12); larger sizes are sampled. Unused column bits after set-all are unconstrained.",
            "DESIGN.md section 5 C06", TECH_MGV),
    "C07": ("model_checking",
            "The layout formulae are TLA+ definitions; TLC checks new-page shape, index injectivity/range, bit order and from_bytes acceptance for every size of the box and the 11 real sizes; a TLAPS proof (spec/proofs/PixelIndex.tla, 100 obligations, run in the thorough tier and bound to the model by MC_Layout!SameDefs) establishes injectivity, range and padding for ALL sizes; expected images are replayed into the real Page; pages, single-pixel images and from_bytes verdicts recorded from the real code (all ids, every size 0..48 x 0..33 in thorough, large sizes) are validated by TLC against the formulae. Pages beyond TLC's 32-bit integers (4 GiB and more; heights up to 2^32-1) are validated with two-limb forms of the same formulae (Page!WideChunks/WideIndex/Tall*), which MC_Layout checks equal to the plain ones on the box and spec/proofs/WideArith.tla (TLAPS, 68 obligations) proves equal for ALL sizes.",
            "Trusted: TLC, the transcription of the documented layout.",
            "DESIGN.md section 5 C07", TECH_MGV),
    "C08": ("model_checking",
            "System.tla composes Controller.tla with Bus.tla. TLC explores a chaos phase (arbitrary traffic to the sign, bounded) followed at any point "
            "by configure / configure-if-needed and bounded sequences of send-pages, show, load-next and re-configure, one exchange per step, with "
            "the C08 postconditions as invariants at every return (1.1 M states per flip style in thorough). TLC's witness paths then put a real "
            "VirtualSign into every distinct model state (plus random-walk states on real sizes), the real Sign runs a program of calls on it for all "
            "11 types x both flip styles x addresses, and TLC evaluates the same postconditions on the recorded outcomes and projections. Bystander signs (fresh or left mid-transfer, behind or in front of the controlled sign) share the bus; sends whose chunk total is just below, at and above 2^16 are recorded as digests (pages held, first differing page).",
            "Trusted: TLC; postconditions are evaluated on state()/sign_type()/pages() of the real VirtualSign. Prior states bounded as in C13.",
            "DESIGN.md section 5 C08", TECH_MGV),
    "C09": ("model_checking",
            "Controller.tla contains a reference-free transfer monitor (acknowledged request first; per item consecutive chunks of at most 16 bytes at "
            "offsets 0,16,32,.. whose concatenation is the item; count = chunks since the request; result asked only afterwards). TLC checks it as an "
            "invariant on every reply script of the bounded controller model (incl. retries, ragged and empty items); TLC's scripts and "
            "cooperative-or-failing buses drive the real Sign (all 11 configurations; page lists of arbitrary dimensions from one chunk up to 65536 "
            "bytes) and TLC runs the same monitor over the conversations that actually took place.",
            "Trusted: TLC, the monitor's reading of the property. Assumes fewer than 65536 chunks per transfer. Items come from SignType::to_bytes / Page::as_bytes.",
            "DESIGN.md section 5 C09", TECH_MGV),
    "C10": ("model_checking",
            "Controller.tla is the documented controller protocol as a Mealy machine (CMsg, Recv). TLC enumerates every reply script over the reply "
            "alphabet to the natural end of each operation (polling bounded) and each complete behaviour is replayed against the real Sign through a "
            "scripted SignBus, message by message and on the outcome; random adversarial conversations of the real Sign with a richer alphabet are "
            "validated by TLC against CMsg/Recv.",
            "Trusted: TLC, the transcription of the rustdoc protocol. Polling loops cut at 4 queries; configure-if-needed uses a sub-alphabet in quick.",
            "DESIGN.md section 5 C10", TECH_MGV),
    "C11": ("model_checking",
            "The C11 clauses are predicates over a conversation only (Controller!C11Log / C11Return). TLC checks them on every prefix of every reply "
            "script of the bounded model; every script then drives the real Sign and TLC evaluates the same predicates on the conversation that "
            "actually took place, as it does for random adversarial conversations. Being reference-free it does not alarm on protocol changes that keep C11.",
            "Trusted: TLC, the log-only definition of 'reply allowed at this point'.",
            "DESIGN.md section 5 C11", TECH_MGV),
    "C15": ("model_checking",
            "Stream.tla states the read-a-frame / write-a-frame contract under an adversarial I/O schedule; TLC checks it for every schedule of the bounded model. Frame::read and Frame::write run on instrumented Read/Write objects that hand out as many bytes as asked (up to a fragment limit) under exhaustively enumerated schedules on short streams, random schedules on long streams, interrupt storms (up to 70 000 interrupts within one frame; a million in thorough), a 70 000-byte line, and hard errors of ten I/O error kinds at every call; TLC validates every I/O call: never past the first line feed, the whole line consumed, result = the library's own decoding of exactly those bytes, trailing bytes stay; everything written = the frame's own encoding with CR LF, or a proper prefix with an I/O error.",
            "Trusted: TLC, the instrumented streams. The model's reader asks for one byte per call; the recorded reader may ask for anything.",
            "DESIGN.md section 5 C15", TECH_MGV),
    "C16": ("model_checking",
            "Serial.tla defines what one process_message call does at the port (PM). TLC checks one-frame-out, read-iff-due, one-line-in and never-invented over every message kind x reply tape; SerialSignBus over an instrumented SerialPort is exercised with all kinds, parameters across their ranges, ~55 reply tapes of two lines each (all states, all acks, unknown, malformed, junk-wrapped valid frames, empty), a failure at each port operation, and sessions of six messages on one bus under all 81 fault patterns; every port call is validated by TLC (bytes written = the message's own frame encoding with CR LF; reply = the library's own decoding of exactly one line).",
            "Trusted: TLC, the instrumented port (an empty receive side times out).",
            "DESIGN.md section 5 C16", TECH_MGV),
    "C17": ("model_checking",
            "On the model, Controller o SerialBus o wire o Odk o Bus is compared call by call with Controller o Bus (same success, outcome and sign "
            "projections; built from the Frame, Message, VirtualSign, Controller and Serial modules). On the code, the real Sign drives real virtual "
            "signs directly and through SerialSignBus + Odk over an in-process duplex port pair (deterministic pumping); TLC checks twin equality per "
            "controller call and the bridge rule (forwarded once, written back iff the bus replied, undecodable line = communication error without "
            "touching the bus) per Odk::process_message call, including raw unknown and invalid lines injected at the bridge.",
            "Trusted: TLC, the duplex port pair. Small sign types only (real 30 ms pacing per chunk).",
            "DESIGN.md section 5 C17", TECH_MGV),
    "C18": ("other",
            "Decided by measurement against a timed TLA+ trace specification (Trace_Pacing): monotonic time stamps at the port's write/read boundaries; "
            "the two lower bounds (30 ms after a data chunk before the next write; 100 ms after an in-progress report before returning, also when the "
            "report arrives late) are required on every paced exchange, and for every other message / reply kind the minimum over repeated trials must "
            "be below the pacing delay. The placement rule itself is checked on the model with a logical clock (MC_Serial!Pacing).",
            "Trusted: std::time::Instant, thread::sleep never returning early. Real-time measurement: noise can only make unpaced minima larger, never "
            "violate a lower bound, and minima over >= 4 trials are compared with 30/100 ms.",
            "DESIGN.md section 5 C18", "timed TLA+ trace specification validated by TLC over time-stamped port events recorded from the real SerialSignBus; placement rule model-checked"),
    "C20": ("model_checking",
            "PortSetup in Serial.tla; TLC checks it over all 936 prior settings x 5 failure points; configure_port, SerialSignBus::try_new and "
            "Odk::try_new are run on that product over an instrumented SerialDevice with its own Settings type, and TLC checks the recorded final "
            "device state and error propagation (effects, not call order).",
            "Trusted: TLC, the instrumented device.",
            "DESIGN.md section 5 C20", TECH_MGV),
    "C19": ("model_checking",
            "SignType.tla holds the documented table and the field relations; TLC checks the table's self-consistency, decode-back, the virtual sign's "
            "derivation and the totality/acceptance rules of decoding over all (family, id) pairs and lengths 0..40. The real blocks, dimensions, "
            "decode results and what a real VirtualSign configured with each block stores are recorded and judged by relations in TLC (not by "
            "equality with the spec's copy of the table), with the supported (family, id) set built from the recorded blocks; all values of the last four "
            "bytes behind fixed prefixes are swept (2^29 per prefix quick, 2^32 thorough).",
            "Trusted: TLC. A consistent change of a type is deliberately not an alarm.",
            "DESIGN.md section 5 C19", TECH_MGV),
    "C12": ("model_checking",
            "VirtualSign.tla is a total step function (TLC evaluates every alphabet message in every reachable state of the bounded model, so the "
            "design has no crashing history); every one of those transitions is delivered to a real VirtualSign under catch_unwind; long random "
            "walks over a wide adversarial alphabet on single signs and on buses of 1..4 signs, and directed lost/short/extra/duplicated-chunk and "
            "wrong-count transfers for all 11 sign types (plus the 65536+5-chunk counter wrap in thorough), are recorded and checked by a "
            "reference-free TLC monitor: no panic, and a count announcement to a receiving sign ends in received/failed.",
            "Trusted: TLC, catch_unwind as panic detector, overflow checks enabled in the harness profile. Walks are random (seeded), not exhaustive.",
            "DESIGN.md section 5 C12", TECH_MGV),
    "C13": ("model_checking",
            "VirtualSign.tla is the documented sign-side state machine. TLC checks its invariants and per-step behaviour on the bounded model for both "
            "flip styles, and that every model step is a step of the size abstraction SignAbs.tla (refinement as a TLC action property), whose invariants "
            "Apalache shows inductive for unbounded counters and lengths (thorough tier); TLC's state graph (one witness path per distinct state, every alphabet edge) is replayed into a real VirtualSign comparing "
            "reply and state()/sign_type()/pages() after every step; in the other direction a breadth-first search over the implementation's own "
            "Hash/Eq state (every alphabet message probed at every node and behind every edge that rejoins a known node), random walks and directed "
            "transfers on real sign sizes are validated event by event by TLC against Step.",
            "Trusted: TLC, the transcription of the documented state machine. Bounds on buffered bytes/pages/counter (model) and chunks per transfer (impl BFS).",
            "DESIGN.md section 5 C13", TECH_MGV),
    "C14": ("model_checking",
            "Bus.tla composes signs; TLC checks AddressedIsolation and UnaddressedOnlyReceiving for every alphabet message in every reachable state of "
            "an exhaustive 2-sign model (both signs mid-transfer at once is reachable; thorough: also of an exhaustive 3-sign model, 151 221 bus states) "
            "and on simulated 3-/4-sign behaviours; the model's witness "
            "paths drive a real VirtualSignBus into each model state where the C14 relations are checked against solo clones of the real signs; "
            "random interleavings on 1..4 real signs, discovery sweeps over all 65 536 addresses and populous buses (48 / 300 signs at random and "
            "arithmetic-progression addresses) are validated by the reference-free TLC monitor Trace_Monitor!Isolation.",
            "Trusted: TLC. The check is reference-free on purpose: a change of a single sign's behaviour that keeps isolation is C13's finding, not C14's.",
            "DESIGN.md section 5 C14", TECH_MGV),
}


def main():
    props = [json.loads(l) for l in open(os.path.join(ROOT, "properties.jsonl"))]
    checks = []
    na = []
    for p in props:
        pid = p["id"]
        if pid in CLAIMS:
            cat, text, note, ref, tech = CLAIMS[pid]
            checks.append({
                "property_id": pid,
                "quick_cmd": "./check %s --tier quick" % pid,
                "thorough_cmd": "./check %s --tier thorough" % pid,
                "evidence_file": "/verif/evidence/%s.json" % pid,
                "replay_cmd_template": "./check %s --replay {path}" % pid,
                "engine": "tla-mgv",
                "level_claimed": {"category": cat, "text": text, "design_ref": ref},
                "level_note": note,
                "technique": tech,
            })
        else:
            na.append({"property_id": pid, "reason": "check not built yet (work in progress, see DESIGN.md section 9); will be decided with the TLA+ specification"})
    m = {
        "version": 1,
        "setup_cmd": "cd /verif/harness && cargo build --release --offline",
        "hooks": {
            "guard": "flipdot_verif",
            "enable": "harness/.cargo/config.toml passes --cfg flipdot_verif; no source hooks exist: every observation is made through the public API "
                      "(SignBus / SerialPort / Read / Write implementations supplied by the harness)",
            "baseline_off_cmd": "cd /repo && cargo test --workspace --no-fail-fast --offline",
            "source_commits": [],
            "add_only": True,
        },
        "engines": [{
            "name": "tla-mgv",
            "path": "/verif/check",
            "serves_properties": sorted(CLAIMS),
            "kind_free_text": "python3 driver (check, vlib.py, props.py) + TLA+ specification (spec/*.tla, checked with TLC 1.8) + Rust conformance "
                              "harness (harness/, crate fdv: `record` writes NDJSON traces of the real code, `replay` runs TLC-generated vectors/behaviours)",
        }],
        "checks": checks,
        "notes": "Exit codes: 0 held, 1 violation (with VIOLATION line and replay file under /verif/replays), 2 tool error/timeout (no verdict). "
                 "Genuine defects found were repaired by fix: commits in /repo and are listed in /verif/known_findings.txt.",
        "not_applicable": na,
    }
    with open(os.path.join(ROOT, "MANIFEST.json"), "w") as f:
        json.dump(m, f, indent=1)
    try:
        subprocess.check_call(["/opt/veriftools/pyvenv/bin/python", "-c",
                               "import json,jsonschema;jsonschema.validate(json.load(open('%s/MANIFEST.json')),json.load(open('/root/.vp/MANIFEST.schema.json')));print('MANIFEST valid: %d checks')" % (ROOT, len(checks))])
    except Exception as e:
        print("validation failed", e)
        sys.exit(1)


if __name__ == "__main__":
    main()
