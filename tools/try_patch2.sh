#!/bin/sh
# usage: try_patch2.sh [-R] <patch> <tier> <Cnn>...   -- like try_patch.sh but in the private copies made by mut_env.sh
rev=""
if [ "$1" = "-R" ]; then rev="-R"; shift; fi
patch="$1"; tier="$2"; shift 2
V=${V:-/tmp/v2}; R=${R:-/tmp/mut/repo2}
cd $R || exit 2
git checkout -q -- .
git apply $rev "$patch" || { echo "patch does not apply"; exit 2; }
for c in "$@"; do
  out=$(cd $V && ./check "$c" --tier "$tier" 2>&1); rc=$?
  echo "== $c rc=$rc"; echo "$out" | grep -E "VIOLATION|KNOWN-FINDING|TOOL-ERROR|^\[C|^  " | head -12
done
git -C $R checkout -q -- .
