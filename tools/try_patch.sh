#!/bin/sh
# usage: try_patch.sh [-R] <patch> <tier> <Cnn>...   -- apply patch to /repo, run checks, restore /repo
rev=""
if [ "$1" = "-R" ]; then rev="-R"; shift; fi
patch="$1"; tier="$2"; shift 2
cd /repo || exit 2
if ! git diff --quiet; then echo "repo dirty"; exit 2; fi
git apply $rev "$patch" || { echo "patch does not apply"; exit 2; }
rm -rf /tmp/tlcw/evidence.bak; cp -r /verif/evidence /tmp/tlcw/evidence.bak 2>/dev/null
for c in "$@"; do
  out=$(cd /verif && ./check "$c" --tier "$tier" 2>&1); rc=$?
  echo "== $c rc=$rc"; echo "$out" | grep -E "VIOLATION|KNOWN-FINDING|TOOL-ERROR|^\[C|^  " | head -12
done
git -C /repo checkout -- .
# evidence written while a patch was applied says nothing about the real tree: put the previous files back
if [ -d /tmp/tlcw/evidence.bak ]; then rm -rf /verif/evidence; mv /tmp/tlcw/evidence.bak /verif/evidence; fi
