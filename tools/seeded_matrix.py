#!/usr/bin/env python3
"""Runs the checks against every seeded change and records which checks raise an alarm.

usage: seeded_matrix.py [--repo DIR] [--tier quick] [--all-checks] [ids...]

--repo DIR: a scratch copy / worktree of the repository to patch (default /repo; when it is not /repo the harness's
path dependencies are redirected there for the duration of the run).  The patch is always undone afterwards.
Results: seeded/MATRIX.json (id -> {check: rc}) and the detected_by list in each seeded/<id>/meta.json.
"""
import json
import os
import re
import subprocess
import sys

ROOT = os.path.dirname(os.path.dirname(os.path.abspath(__file__)))


def sh(cmd, **kw):
    return subprocess.run(cmd, shell=True, stdout=subprocess.PIPE, stderr=subprocess.STDOUT, text=True, **kw)


# the checks whose subject overlaps with a property (to see both detection and specificity without running all 20)
CODEC = ["C01", "C02", "C03", "C04", "C05", "C15", "C16", "C17"]
SIGNS = ["C08", "C12", "C13", "C14", "C17", "C19"]
CTL = ["C08", "C09", "C10", "C11", "C17"]
PAGES = ["C06", "C07", "C08", "C09", "C13"]
SERIAL = ["C15", "C16", "C17", "C18", "C20"]
NEIGHBORS = {"C01": CODEC, "C02": CODEC, "C03": CODEC, "C04": CODEC, "C05": CODEC, "C06": PAGES, "C07": PAGES, "C08": SIGNS + ["C09", "C10", "C11"],
             "C09": CTL, "C10": CTL, "C11": CTL, "C12": SIGNS, "C13": SIGNS, "C14": SIGNS, "C15": SERIAL + ["C01", "C03"], "C16": SERIAL + ["C01", "C03"],
             "C17": SERIAL + ["C08", "C10"], "C18": SERIAL, "C19": SIGNS + ["C07"], "C20": SERIAL}


def main():
    args = sys.argv[1:]
    repo = "/repo"
    tier = "quick"
    allchecks = False
    neighbors = False
    ids = []
    while args:
        a = args.pop(0)
        if a == "--repo":
            repo = args.pop(0)
        elif a == "--tier":
            tier = args.pop(0)
        elif a == "--all-checks":
            allchecks = True
        elif a == "--neighbors":
            neighbors = True
        else:
            ids.append(a)
    cargo = os.path.join(ROOT, "harness", "Cargo.toml")
    orig_cargo = open(cargo).read()
    if repo != "/repo":
        open(cargo, "w").write(orig_cargo.replace('"/repo', '"' + repo))
    seeded = os.path.join(ROOT, "seeded")
    if not ids:
        ids = sorted(d for d in os.listdir(seeded) if os.path.isdir(os.path.join(seeded, d)))
    mpath = os.path.join(seeded, "MATRIX.json")
    matrix = json.load(open(mpath)) if os.path.exists(mpath) else {}
    allprops = ["C%02d" % i for i in range(1, 21)]
    try:
        for sid in ids:
            d = os.path.join(seeded, sid)
            meta = json.load(open(os.path.join(d, "meta.json")))
            target = meta["breaks_property"]
            checks = allprops if allchecks else (NEIGHBORS.get(target, [target]) if neighbors else [target])
            if sh("git -C %s diff --quiet" % repo).returncode != 0:
                print("repo dirty, stopping")
                return 2
            r = sh("git -C %s apply %s" % (repo, os.path.join(d, "patch.diff")))
            if r.returncode != 0:
                print(sid, "patch does not apply:", r.stdout[:200])
                continue
            row = matrix.get(sid, {})
            try:
                for c in checks:
                    p = sh("cd %s && ./check %s --tier %s" % (ROOT, c, tier))
                    first = ""
                    for line in p.stdout.splitlines():
                        if line.startswith("VIOLATION") or line.startswith("TOOL-ERROR"):
                            first = line[:160]
                            break
                    row[c + ":" + tier] = p.returncode
                    print(sid, c, tier, "rc=%d" % p.returncode, first, flush=True)
            finally:
                sh("git -C %s checkout -- ." % repo)
            matrix[sid] = row
            meta["detected_by"] = sorted(k for k, v in row.items() if v == 1)
            meta["not_detected_by"] = sorted(k for k, v in row.items() if v == 0)
            json.dump(meta, open(os.path.join(d, "meta.json"), "w"), indent=1)
            json.dump(matrix, open(mpath, "w"), indent=1, sort_keys=True)
    finally:
        open(cargo, "w").write(orig_cargo)
    return 0


if __name__ == "__main__":
    sys.exit(main())
