#!/bin/sh
# usage: matrix_parallel.sh <jobs> [seeded_matrix.py options...]   -- the seeded-change matrix in <jobs> private copies of /verif (committed HEAD)
# and of /repo under /tmp/mx, each taking every <jobs>-th seeded change; results are merged into seeded/MATRIX.json and the meta.json files.
jobs="$1"; shift
V=$(cd "$(dirname "$0")/.." && pwd)
mkdir -p /tmp/mx
ids=$(ls -d $V/seeded/*/ | xargs -n1 basename | grep -E -e "${ONLY:-.}")
k=0
while [ $k -lt $jobs ]; do
  [ -d /tmp/mx/r$k ] || git -C /repo worktree add --detach /tmp/mx/r$k HEAD -q
  [ -d /tmp/mx/v$k ] || git -C $V worktree add --detach /tmp/mx/v$k HEAD -q
  git -C /tmp/mx/r$k checkout -q -- . ; git -C /tmp/mx/r$k checkout -q --detach $(git -C /repo rev-parse HEAD)
  git -C /tmp/mx/v$k checkout -q -- . ; git -C /tmp/mx/v$k checkout -q --detach $(git -C $V rev-parse HEAD)
  rm -f /tmp/mx/v$k/seeded/MATRIX.json
  mine=$(echo "$ids" | awk -v k=$k -v n=$jobs 'NR % n == k')
  (cd /tmp/mx/v$k && python3 tools/seeded_matrix.py --repo /tmp/mx/r$k "$@" $mine > /tmp/mx/matrix$k.log 2>&1) &
  k=$((k+1))
done
wait
python3 - "$V" "$jobs" <<'PY'
import json, os, sys
V, jobs = sys.argv[1], int(sys.argv[2])
mp = os.path.join(V, "seeded", "MATRIX.json")
matrix = json.load(open(mp)) if os.path.exists(mp) else {}
for k in range(jobs):
    p = "/tmp/mx/v%d/seeded/MATRIX.json" % k
    if os.path.exists(p):
        for sid, row in json.load(open(p)).items():
            matrix.setdefault(sid, {}).update(row)
for sid, row in matrix.items():
    mpth = os.path.join(V, "seeded", sid, "meta.json")
    if os.path.exists(mpth):
        meta = json.load(open(mpth))
        meta["detected_by"] = sorted(c for c, v in row.items() if v == 1)
        meta["not_detected_by"] = sorted(c for c, v in row.items() if v == 0)
        json.dump(meta, open(mpth, "w"), indent=1)
json.dump(matrix, open(mp, "w"), indent=1, sort_keys=True)
print("merged", len(matrix), "rows")
PY
