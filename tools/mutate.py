#!/usr/bin/env python3
"""Systematic (operator) mutation of the library's non-test source, to measure what the framework adds over the repository's own
suite on *ordinary* mistakes (as opposed to the engineered changes of seeded/).

  mutate.py list                     -> mutants.json in OUT (every generated mutant: file, line, operator, before, after)
  mutate.py suite  [--jobs N]        -> phase A: which mutants build and survive the repository's own 63 tests
  mutate.py checks [--jobs N]        -> phase B: the quick checks whose subject overlaps with the mutated file, on every survivor
  mutate.py report                   -> summary table (also written to OUT/REPORT.md)

Nothing is ever applied to /repo: every job works in its own scratch worktree of /repo (and, for phase B, its own copy of
/verif at the committed HEAD) under --scratch (default /tmp/mx), which `mutate.py clean` removes.
"""
import concurrent.futures as cf
import json
import os
import re
import subprocess
import sys

ROOT = os.path.dirname(os.path.dirname(os.path.abspath(__file__)))
OUT = os.path.join(ROOT, "mutation")
SCRATCH = "/tmp/mx"
FILES = ["libs/core/src/frame.rs", "libs/core/src/message.rs", "libs/core/src/page.rs", "libs/core/src/sign_type.rs", "src/sign.rs",
         "libs/serial/src/serial_port.rs", "libs/serial/src/serial_sign_bus.rs", "libs/testing/src/virtual_sign_bus.rs", "libs/testing/src/odk.rs"]
CHECKS = {
    "libs/core/src/frame.rs": ["C01", "C03", "C02", "C15", "C05", "C16", "C17", "EXTRA"],
    "libs/core/src/message.rs": ["C04", "C05", "C10", "C13", "C16", "C18", "C17", "EXTRA"],
    "libs/core/src/page.rs": ["C07", "C06", "C08", "C09", "C13", "EXTRA"],
    "libs/core/src/sign_type.rs": ["C19", "C08", "C13", "C12", "EXTRA"],
    "src/sign.rs": ["C10", "C11", "C09", "C08", "C17", "EXTRA"],
    "libs/serial/src/serial_port.rs": ["C20"],
    "libs/serial/src/serial_sign_bus.rs": ["C16", "C18", "C20", "C17"],
    "libs/testing/src/virtual_sign_bus.rs": ["C13", "C12", "C14", "C08", "C17"],
    "libs/testing/src/odk.rs": ["C17", "C20"],
}
STATES = ["Unconfigured", "ConfigInProgress", "ConfigReceived", "ConfigFailed", "PixelsInProgress", "PixelsReceived", "PixelsFailed", "PageLoaded",
          "PageLoadInProgress", "PageShown", "PageShowInProgress", "ShowingPages", "ReadyToReset"]
OPS = ["ReceiveConfig", "ReceivePixels", "ShowLoadedPage", "LoadNextPage", "StartReset", "FinishReset"]

BINOPS = [(" + ", " - "), (" - ", " + "), (" * ", " / "), (" / ", " * "), (" % ", " / "), (" < ", " <= "), (" <= ", " < "), (" > ", " >= "), (" >= ", " > "),
          (" == ", " != "), (" != ", " == "), (" && ", " || "), (" || ", " && "), (" += ", " -= "), (" -= ", " += "), (" | ", " & "), (" & ", " | "),
          (" << ", " >> "), (" >> ", " << "), ("..=", ".."), ("wrapping_add", "wrapping_sub"), ("saturating_sub", "wrapping_sub"), (".min(", ".max("), (".max(", ".min("),
          ("is_some()", "is_none()"), ("is_none()", "is_some()"), ("is_ok()", "is_err()"), ("is_err()", "is_ok()"), ("is_empty()", "len() == 1")]


def sh(cmd, timeout=None, cwd=None):
    try:
        p = subprocess.run(cmd, shell=True, stdout=subprocess.PIPE, stderr=subprocess.STDOUT, text=True, timeout=timeout, cwd=cwd)
        return p.returncode, p.stdout
    except subprocess.TimeoutExpired as e:
        return 124, (e.stdout or b"").decode("utf-8", "replace") if isinstance(e.stdout, bytes) else (e.stdout or "")


def code_lines(path):
    """(line number, text) of the mutable lines: outside #[cfg(test)] modules, comments, attributes, use/log/format-only lines."""
    lines = open(os.path.join("/repo", path)).read().split("\n")
    out = []
    in_tests = False
    for i, t in enumerate(lines):
        s = t.strip()
        if s.startswith("#[cfg(test)]"):
            in_tests = True
        if in_tests:
            continue
        if not s or s.startswith("//") or s.startswith("#[") or s.startswith("#![") or s.startswith("use ") or s.startswith("pub use "):
            continue
        if re.match(r"^(debug|info|warn|error|trace)!\(", s) or s.startswith("write!(") or s.startswith("writeln!(") or "#[error(" in s:
            continue
        out.append((i, t))
    return out


def strip_strings(t):
    return re.sub(r'"(?:[^"\\]|\\.)*"', lambda m: '"' + "_" * (len(m.group(0)) - 2) + '"', t)


def mutants_of_line(path, i, t):
    ms = []
    bare = strip_strings(t)
    code = bare.split("//")[0]
    for a, b in BINOPS:
        start = 0
        while True:
            k = code.find(a, start)
            if k < 0:
                break
            start = k + len(a)
            if a in (" < ", " > ") and re.search(r"(fn |impl|struct |enum |trait |type |->|::<|<'|Result<|Option<|Vec<|Box<|Cow<|Rc<|RefCell<|PhantomData<|Into<|From<|AsRef<)", code):
                continue  # generics, not comparisons
            if a in (" & ", " | ") and ("match" in code or code.strip().startswith("|") or "=> " in code and a == " | "):
                continue  # patterns
            if a == " * " and re.search(r"\*(const|mut) ", code):
                continue
            ms.append((path, i, "op:%s->%s" % (a.strip(), b.strip()), t, t[:k] + b + t[k + len(a):]))
    # integer literals (not in array sizes of attribute-like consts): n -> n+1 ; 0 -> 1
    for m in re.finditer(r"(?<![\w.])(0x[0-9A-Fa-f]+|\d+)(?![\w.]*[\w])(?!\.\d)", code):
        lit = m.group(1)
        if code[m.end():m.end() + 1] in ("u", "i", "_") and not re.match(r"(u8|u16|u32|u64|usize|i32|i64)", code[m.end():]):
            continue
        v = int(lit, 16) if lit.startswith("0x") else int(lit)
        for nv in ([v + 1] if v == 0 else [v + 1, v - 1]):
            rep = ("0x%0*X" % (len(lit) - 2, nv)) if lit.startswith("0x") else str(nv)
            ms.append((path, i, "lit:%s->%s" % (lit, rep), t, t[:m.start(1)] + rep + t[m.end(1):]))
    for a, b in (("true", "false"), ("false", "true")):
        for m in re.finditer(r"\b%s\b" % a, code):
            ms.append((path, i, "bool:%s->%s" % (a, b), t, t[:m.start()] + b + t[m.end():]))
    # protocol constants: a state / operation replaced by the next one in the enum
    for names, pre in ((STATES, "State::"), (OPS, "Operation::")):
        for m in re.finditer(re.escape(pre) + r"(\w+)", code):
            if m.group(1) in names:
                nxt = names[(names.index(m.group(1)) + 1) % len(names)]
                ms.append((path, i, "enum:%s->%s" % (m.group(1), nxt), t, t[:m.start(1)] + nxt + t[m.end(1):]))
    # unary not removed
    for m in re.finditer(r"(?<![=!<>])!(?=[a-z(])(?!\()", code):
        if re.match(r"!\w+!?\(", code[m.start():]) and re.match(r"!(matches|vec|format|assert|debug|info|warn|panic|unreachable|write|println)", code[m.start():]):
            pass
        ms.append((path, i, "not:removed", t, t[:m.start()] + t[m.end():]))
    # statement deletion: a single-line expression statement (call or assignment) is dropped
    s = code.strip()
    if s.endswith(";") and not re.match(r"^(let |return|pub |const |static |type |use |break|continue|\}|impl|fn )", s) and s.count("(") == s.count(")"):
        ms.append((path, i, "stmt:deleted", t, re.match(r"^\s*", t).group(0) + "// (statement removed)"))
    # `?` dropped from a call statement whose value is unused: `x()?;` -> `let _ = x();`
    if re.match(r"^\s*[\w.:&()\[\], *]+\)\?;\s*$", code) and not s.startswith("let ") and not s.startswith("return"):
        ind = re.match(r"^\s*", t).group(0)
        ms.append((path, i, "err:ignored", t, ind + "let _ = " + s[:-2] + ";"))
    return ms


def generate():
    allm = []
    for f in FILES:
        for i, t in code_lines(f):
            allm.extend(mutants_of_line(f, i, t))
    seen = set()
    res = []
    for (f, i, op, before, after) in allm:
        if before == after or (f, i, after) in seen:
            continue
        seen.add((f, i, after))
        res.append({"id": "M%04d" % (len(res) + 1), "file": f, "line": i + 1, "op": op, "before": before.strip(), "after": after.strip(), "_after_full": after})
    return res


def apply_mutant(repo, m):
    p = os.path.join(repo, m["file"])
    lines = open(p).read().split("\n")
    if "_span" in m:
        a, b = m["_span"]
        lines[a - 1:b] = m["_after_full"].split("\n")
    else:
        lines[m["line"] - 1] = m["_after_full"]
    open(p, "w").write("\n".join(lines))


def wave2_mutants():
    """Second wave of line operators: integer casts narrowed / widened, a condition negated, a match guard dropped,
    ranges starting one later, wrapping arithmetic made saturating, Some(..) replaced by None, early error returns removed."""
    res = []
    CASTS = [("as u8", "as u16"), ("as u16", "as u8"), ("as u16", "as u32"), ("as u32", "as u16"), ("as usize", "as u16"), ("as usize", "as u8")]
    for f in FILES:
        for i, t in code_lines(f):
            code = strip_strings(t).split("//")[0]
            out = []
            for a, b in CASTS:
                for m in re.finditer(re.escape(a) + r"\b", code):
                    out.append(("cast:%s->%s" % (a, b), t[:m.start()] + b + t[m.end():]))
            m = re.match(r"^(\s*)(\} else )?if (?!let )(.+) \{\s*$", code)
            if m and "{" not in m.group(3):
                out.append(("cond:negated", "%s%sif !(%s) {" % (m.group(1), m.group(2) or "", t.strip()[len((m.group(2) or "")) + 3:-2].strip())))
            m = re.search(r"\bif ([^{}=>]|==|!=|>=|<=)+?=> ", code)
            if m and ("=>" in code) and not code.strip().startswith("if "):
                g = re.search(r" if (.+?) =>", t)
                if g:
                    out.append(("guard:dropped", t[:g.start()] + " if true =>" + t[g.end():]))
            for m in re.finditer(r"\b0\.\.", code):
                out.append(("range:0..->1..", t[:m.start()] + "1.." + t[m.end():]))
            for a, b in (("wrapping_add", "saturating_add"), ("wrapping_sub", "saturating_sub"), ("saturating_sub", "wrapping_sub")):
                for m in re.finditer(a, code):
                    out.append(("arith:%s->%s" % (a, b), t[:m.start()] + b + t[m.end():]))
            m = re.match(r"^(\s*)return Err\(.*\);\s*$", code)
            if m:
                out.append(("ret:err-removed", m.group(1) + "// (early error return removed)"))
            m = re.search(r"\bSome\(([^()]*)\)(?!\s*=>)(?!\s*=\s)", code)
            if m and "=>" in code and code.index("=>") < m.start():
                out.append(("some->none", t[:m.start()] + "None" + t[m.end():]))
            for op, after in out:
                if after != t:
                    res.append({"file": f, "line": i + 1, "op": op, "before": t.strip(), "after": after.strip(), "_after_full": after})
    return res


def fn_mutants():
    """cargo-mutants style: the body of every non-test function replaced by a constant of its return type."""
    res = []
    for f in FILES:
        lines = open(os.path.join("/repo", f)).read().split("\n")
        in_tests = False
        i = 0
        while i < len(lines):
            t = lines[i]
            if t.strip().startswith("#[cfg(test)]"):
                break
            m = re.match(r"^(\s*)(pub(\([a-z]+\))? )?fn (\w+)", t)
            if not m:
                i += 1
                continue
            # signature up to the opening brace
            j = i
            sig = ""
            while j < len(lines) and "{" not in strip_strings(lines[j]):
                sig += lines[j] + " "
                j += 1
            if j >= len(lines):
                break
            sig += lines[j]
            if sig.strip().endswith(";"):
                i = j + 1
                continue
            # matching close brace
            depth = 0
            k = j
            done = False
            while k < len(lines):
                code = strip_strings(lines[k]).split("//")[0]
                depth += code.count("{") - code.count("}")
                if depth == 0 and k >= j:
                    done = True
                    break
                k += 1
            if not done or k == j:
                i = j + 1
                continue
            rt = re.search(r"->\s*(.+?)\s*(where\b.*)?\{\s*$", sig.strip())
            rtype = rt.group(1).strip() if rt else ""
            vals = []
            if rtype == "":
                vals = [""]
            elif rtype == "bool":
                vals = ["true", "false"]
            elif re.match(r"^(io::)?Result<\(\), ", rtype) or rtype.startswith("Result<(),") or rtype == "fmt::Result":
                vals = ["Ok(())"]
            elif rtype.startswith("Option<"):
                vals = ["None"]
            elif rtype in ("u8", "u16", "u32", "u64", "usize"):
                vals = ["0", "1"]
            elif rtype.startswith("Vec<"):
                vals = ["vec![]"]
            elif rtype == "String":
                vals = ["String::new()"]
            elif re.match(r"^Result<Option<", rtype):
                vals = ["Ok(None)"]
            elif re.match(r"^\(usize, u8\)|^\(u32, u32\)", rtype):
                vals = ["(0, 0)", "(1, 1)"]
            ind = m.group(1)
            for v in vals:
                body = lines[i:j + 1] + ([ind + "    " + v] if v else []) + [ind + "}"]
                res.append({"file": f, "line": i + 1, "op": "fn:%s->%s" % (m.group(4), v or "{}"), "before": "fn %s(..) -> %s { ... }" % (m.group(4), rtype or "()"),
                            "after": "fn %s(..) { %s }" % (m.group(4), v), "_after_full": "\n".join(body), "_span": [i + 1, k + 1]})
            i = k + 1
    return res


def load():
    return json.load(open(os.path.join(OUT, "mutants.json")))


def save(ms):
    json.dump(ms, open(os.path.join(OUT, "mutants.json"), "w"), indent=0)


def worker_suite(args):
    k, batch = args
    wt = "%s/s%d" % (SCRATCH, k)
    if not os.path.isdir(wt):
        sh("git -C /repo worktree add --detach %s HEAD -q" % wt)
    sh("cargo test --workspace --no-fail-fast --offline --lib --tests --no-run", cwd=wt, timeout=900)
    res = {}
    for m in batch:
        sh("git checkout -q -- .", cwd=wt)
        apply_mutant(wt, m)
        rc, out = sh("cargo build --workspace --offline 2>&1 | tail -30", cwd=wt, timeout=600)
        if "error" in out and ("error[" in out or "error:" in out):
            res[m["id"]] = "build_fail"
            continue
        warn = "warning: unused" in out or "warning: unreachable" in out or "warning: value assigned" in out
        rc, out = sh("timeout 180 cargo test --workspace --no-fail-fast --offline --lib --tests 2>&1 | tail -60", cwd=wt, timeout=900)
        if "could not compile" in out:
            res[m["id"]] = "build_fail"
        elif "test result: FAILED" in out or "panicked" in out and "test result: ok" not in out:
            res[m["id"]] = "killed_by_suite"
        elif rc == 124 or "Terminated" in out:
            res[m["id"]] = "suite_timeout"
        elif "test result: ok" in out:
            res[m["id"]] = "survived_warn" if warn else "survived"
        else:
            res[m["id"]] = "unknown"
        print(m["id"], m["file"], m["line"], m["op"], res[m["id"]], flush=True)
    sh("git checkout -q -- .", cwd=wt)
    return res


def worker_checks(args):
    k, batch = args
    wt = "%s/r%d" % (SCRATCH, k)
    vt = "%s/v%d" % (SCRATCH, k)
    if not os.path.isdir(wt):
        sh("git -C /repo worktree add --detach %s HEAD -q" % wt)
    if not os.path.isdir(vt):
        sh("git -C %s worktree add --detach %s HEAD -q" % (ROOT, vt))
    sh("git checkout -q -- . ; git checkout -q --detach %s" % sh("git -C %s rev-parse HEAD" % ROOT)[1].strip(), cwd=vt)
    sh("sed -i 's#\"/repo#\"%s#g' %s/harness/Cargo.toml" % (wt, vt))
    res = {}
    for m in batch:
        sh("git checkout -q -- .", cwd=wt)
        apply_mutant(wt, m)
        row = {}
        for c in CHECKS[m["file"]]:
            rc, out = sh("timeout 1500 ./check %s --tier quick 2>&1 | tail -40" % c, cwd=vt, timeout=1600)
            # the pipeline's status is tail's: recover the check's verdict from its output
            if "VIOLATION property=" in out:
                row[c] = 1
                break
            elif "TOOL-ERROR" in out or "violations=" not in out:
                row[c] = 2
            else:
                row[c] = 0
        res[m["id"]] = row
        print(m["id"], m["file"], m["line"], m["op"], row, flush=True)
    sh("git checkout -q -- .", cwd=wt)
    return res


def main():
    global SCRATCH
    args = sys.argv[1:]
    cmd = args.pop(0)
    jobs = 4
    only = None
    while args:
        a = args.pop(0)
        if a == "--jobs":
            jobs = int(args.pop(0))
        elif a == "--scratch":
            SCRATCH = args.pop(0)
        elif a == "--only":
            only = args.pop(0).split(",")
    os.makedirs(OUT, exist_ok=True)
    if cmd == "wave2":
        ms = load()
        have = {(m["file"], m["line"], m["after"]) for m in ms}
        n = 0
        for m in wave2_mutants():
            if (m["file"], m["line"], m["after"]) not in have:
                n += 1
                have.add((m["file"], m["line"], m["after"]))
                m["id"] = "W%03d" % n
                ms.append(m)
        save(ms)
        print(n, "second-wave mutants added")
    elif cmd == "fnlist":
        ms = load()
        have = {(m["file"], m["line"], m["op"]) for m in ms}
        n = 0
        for m in fn_mutants():
            if (m["file"], m["line"], m["op"]) not in have:
                n += 1
                m["id"] = "F%03d" % n
                ms.append(m)
        save(ms)
        print(n, "function-body mutants added")
    elif cmd == "list":
        ms = generate()
        save(ms)
        byf = {}
        for m in ms:
            byf[m["file"]] = byf.get(m["file"], 0) + 1
        print(len(ms), "mutants", byf)
    elif cmd == "suite":
        ms = load()
        todo = [m for m in ms if "suite" not in m]
        os.makedirs(SCRATCH, exist_ok=True)
        batches = [(k, todo[k::jobs]) for k in range(jobs)]
        with cf.ThreadPoolExecutor(jobs) as ex:
            for res in ex.map(worker_suite, batches):
                for m in ms:
                    if m["id"] in res:
                        m["suite"] = res[m["id"]]
                save(ms)
    elif cmd == "checks":
        ms = load()
        todo = [m for m in ms if m.get("suite", "").startswith("survived") and ("checks" not in m or (only and m["id"] in only))]
        if only:
            todo = [m for m in todo if m["id"] in only]
        os.makedirs(SCRATCH, exist_ok=True)
        batches = [(k, todo[k::jobs]) for k in range(jobs)]
        with cf.ThreadPoolExecutor(jobs) as ex:
            for res in ex.map(worker_checks, batches):
                for m in ms:
                    if m["id"] in res:
                        m["checks"] = res[m["id"]]
                save(ms)
    elif cmd == "report":
        ms = load()
        lines = []
        n = len(ms)
        cnt = {}
        for m in ms:
            cnt[m.get("suite", "not run")] = cnt.get(m.get("suite", "not run"), 0) + 1
        lines.append("generated: %d; %s" % (n, ", ".join("%s: %d" % kv for kv in sorted(cnt.items()))))
        surv = [m for m in ms if m.get("suite", "").startswith("survived")]
        killed = [m for m in surv if 1 in m.get("checks", {}).values()]
        tool = [m for m in surv if 1 not in m.get("checks", {}).values() and 2 in m.get("checks", {}).values()]
        alive = [m for m in surv if "checks" in m and 1 not in m["checks"].values() and 2 not in m["checks"].values()]
        lines.append("survive the repository's 63 tests: %d; of these a quick check raises a VIOLATION on %d, ends in a tool error (hang / crash of the build) on %d, none on %d"
                     % (len(surv), len(killed), len(tool), len(alive)))
        lines.append("")
        lines.append("| id | file:line | operator | before -> after | classification |")
        lines.append("|---|---|---|---|---|")
        notes = {}
        np = os.path.join(OUT, "classification.json")
        if os.path.exists(np):
            notes = json.load(open(np))
        for m in alive + tool:
            lines.append("| %s | %s:%d | %s | `%s` -> `%s` | %s |" % (m["id"], m["file"], m["line"], m["op"], m["before"][:70].replace("|", "\\|"), m["after"][:70].replace("|", "\\|"), notes.get(m["id"], "")))
        open(os.path.join(OUT, "REPORT.md"), "w").write("\n".join(lines) + "\n")
        print("\n".join(lines[:3]))
    elif cmd == "diff":
        # mutate.py diff <id> : the mutant as a patch (for tools/try_patch.sh)
        import difflib
        m = [x for x in load() if x["id"] == only[0]][0] if only else None
        src = open(os.path.join("/repo", m["file"])).read().split("\n")
        new = list(src)
        new[m["line"] - 1] = m["_after_full"]
        sys.stdout.write("".join(difflib.unified_diff([l + "\n" for l in src], [l + "\n" for l in new], "a/" + m["file"], "b/" + m["file"])))
    elif cmd == "clean":
        for d in os.listdir(SCRATCH) if os.path.isdir(SCRATCH) else []:
            p = os.path.join(SCRATCH, d)
            if d.startswith("v"):
                sh("git -C %s worktree remove --force %s" % (ROOT, p))
            else:
                sh("git -C /repo worktree remove --force %s" % p)
        sh("rm -rf %s" % SCRATCH)
        sh("git -C /repo worktree prune; git -C %s worktree prune" % ROOT)


if __name__ == "__main__":
    main()
