#!/bin/sh
# runs the quick checks that overlap with each benign (property-preserving) change; any rc=1 is a false alarm to investigate
# usage: [ONLY=A|B|C|D] benign_matrix.sh   (uses the private environment of mut_env.sh)
V=/tmp/v2; R=/tmp/mut/repo2
B=$(cd "$(dirname "$0")/../benign" && pwd)
run() { # patch checks...
  patch="$1"; shift
  cd $R && git checkout -q -- . && git apply "$patch" || { echo "$patch: does not apply"; return; }
  for c in "$@"; do
    out=$(cd $V && ./check "$c" --tier quick 2>&1); rc=$?
    first=$(echo "$out" | grep -E "VIOLATION|TOOL-ERROR" | head -1 | cut -c1-150)
    echo "benign$(basename $(dirname $patch))/$(basename $patch) $c rc=$rc $first"
  done
  git -C $R checkout -q -- .
}
[ -n "$ONLY" ] && [ "$ONLY" != A ] || for n in 1 2 3 4 5 6; do run $B/A/$n.diff C01 C02 C03 C04 C05 C06 C07 C08 C09 C13 C15 C16 C17 C19; done
[ -n "$ONLY" ] && [ "$ONLY" != B ] || for n in 1 2 3 4 5 6; do run $B/B/$n.diff C08 C12 C13 C14 C17 C19 C20; done
[ -n "$ONLY" ] && [ "$ONLY" != C ] || for n in 1 2 3 4 5 6; do run $B/C/$n.diff C08 C09 C10 C11 C15 C16 C17 C18 C20; done
if [ -d $B/D ] && { [ -z "$ONLY" ] || [ "$ONLY" = D ]; }; then for n in 1 2 3 4 5 6 7 8; do [ -f $B/D/$n.diff ] && run $B/D/$n.diff C01 C03 C05 C07 C08 C09 C10 C11 C12 C13 C14 C15 C16 C17 C18 C19 C20; done; fi
