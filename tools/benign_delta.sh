#!/bin/sh
# usage: benign_delta.sh <k> <group> "<patch numbers>" <checks...>  -- selected cells of the benign matrix in a private environment /tmp/bx/v<k>, /tmp/bx/r<k>
k="$1"; grp="$2"; nums="$3"; shift 3
HERE=$(cd "$(dirname "$0")/.." && pwd)
mkdir -p /tmp/bx
V=/tmp/bx/v$k R=/tmp/bx/r$k "$HERE/tools/mut_env.sh" >/dev/null || exit 2
V=/tmp/bx/v$k; R=/tmp/bx/r$k
for n in $nums; do
  patch=$HERE/benign/$grp/$n.diff
  [ -f "$patch" ] || continue
  (cd $R && git checkout -q -- . && git apply "$patch") || { echo "$patch: does not apply"; continue; }
  for c in "$@"; do
    out=$(cd $V && ./check "$c" --tier quick 2>&1); rc=$?
    first=$(echo "$out" | grep -E "VIOLATION|TOOL-ERROR" | head -1 | cut -c1-150)
    echo "benign$grp/$n.diff $c rc=$rc $first"
  done
  git -C $R checkout -q -- .
done
