#!/usr/bin/env python3
"""Renders seeded/MATRIX.json into the table of DESIGN.md section 10.5 (between the MATRIX markers)."""
import json, os, re
ROOT = os.path.dirname(os.path.dirname(os.path.abspath(__file__)))
m = json.load(open(os.path.join(ROOT, "seeded", "MATRIX.json")))
desc = json.load(open(os.path.join(ROOT, "seeded", "DESCRIPTIONS.json")))
rows = ["| change | breaks | what it does | alarms (exit 1) | silent (exit 0) |", "|---|---|---|---|---|"]
def key(k):
    return (k[0] != "C", k)
for sid in sorted(m, key=key):
    meta = json.load(open(os.path.join(ROOT, "seeded", sid, "meta.json")))
    row = m[sid]
    hit = sorted(k for k, v in row.items() if v == 1)
    miss = sorted(k for k, v in row.items() if v == 0)
    err = sorted(k for k, v in row.items() if v not in (0, 1))
    extra = (" tool error: " + ", ".join(err)) if err else ""
    rows.append("| %s | %s | %s | %s | %s%s |" % (sid, meta["breaks_property"], desc.get(sid, ""), ", ".join(hit) or "-", ", ".join(miss) or "-", extra))
n_target = sum(1 for sid in m if any(v == 1 and k.startswith(json.load(open(os.path.join(ROOT, "seeded", sid, "meta.json")))["breaks_property"]) for k, v in m[sid].items()))
text = "<!-- MATRIX BEGIN -->\n" + "\n".join(rows) + "\n\n%d of %d seeded changes raise an alarm in the quick check of the property they were written to break; every other one is reported by the check of the property that owns the behaviour it changes (10.4b) or, for C06-r3b, by the thorough tier; C18-r3b is deliberately not reported (10.4c).\n<!-- MATRIX END -->" % (n_target, len(m))
p = os.path.join(ROOT, "DESIGN.md")
s = open(p).read()
if "@@MATRIX@@" in s:
    s = s.replace("@@MATRIX@@", text)
else:
    s = re.sub(r"<!-- MATRIX BEGIN -->.*<!-- MATRIX END -->", lambda _: text, s, flags=re.S)
open(p, "w").write(s)
print("matrix rendered:", n_target, "/", len(m))
