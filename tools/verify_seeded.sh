#!/bin/sh
# usage: verify_seeded.sh <worktree> <seeded id>  -- confirms seeded/<id> on the worktree's tree: demo passes without the change,
# the whole suite passes with it, the demo fails with it
wt="$1"; id="$2"; d=/verif/seeded/$id
cd "$wt" || exit 2
git checkout -q -- . ; git clean -fdq -e target
cp "$d/demo.rs" tests/zz_demo.rs
if cargo test --offline --test zz_demo >/dev/null 2>&1; then a="demo_without_change=pass"; else a="demo_without_change=FAIL"; fi
rm tests/zz_demo.rs
git apply "$d/patch.diff" || { echo "$id apply=FAIL"; exit 1; }
if cargo test --workspace --no-fail-fast --offline >/dev/null 2>&1; then b="suite_with_change=pass"; else b="suite_with_change=FAIL"; fi
cp "$d/demo.rs" tests/zz_demo.rs
if cargo test --offline --test zz_demo >/dev/null 2>&1; then c="demo_with_change=PASS(bad)"; else c="demo_with_change=fail"; fi
rm tests/zz_demo.rs
git checkout -q -- . ; git clean -fdq -e target
echo "$id: $a $b $c"
