#!/usr/bin/env python3
"""install_seed.py <round> <first_run_log> <ids...>  -- copies a verified sub-agent deliverable /tmp/mut/out/<Cnn>r<round>/{a,b}.diff
into seeded/<Cnn>-r<round>{a,b}/ (patch.diff, demo.rs, notes.md, meta.json). Summaries come from SUMMARIES below (written by hand
from the agent's report)."""
import json, os, re, shutil, subprocess, sys
ROOT = os.path.dirname(os.path.dirname(os.path.abspath(__file__)))
rnd = sys.argv[1]; firstlog = open(sys.argv[2]).read(); ids = sys.argv[3:]
SUM = json.load(open("/tmp/mut/summaries_r%s.json" % rnd))
props = {json.loads(l)["id"]: json.loads(l) for l in open(os.path.join(ROOT, "properties.jsonl"))}
desc = json.load(open(os.path.join(ROOT, "seeded", "DESCRIPTIONS.json")))
head = subprocess.run("git -C /repo rev-parse --short HEAD", shell=True, stdout=subprocess.PIPE, text=True).stdout.strip()
for cid in ids:
    out = "/tmp/mut/out/%sr%s" % (cid, rnd)
    notes = open(out + "/notes.md").read()
    parts = re.split(r"^## Change ", notes, flags=re.M)
    for ab in "ab":
        sid = "%s-r%s%s" % (cid, rnd, ab)
        d = os.path.join(ROOT, "seeded", sid); os.makedirs(d, exist_ok=True)
        shutil.copy(out + "/%s.diff" % ab, d + "/patch.diff"); shutil.copy(out + "/demo_%s.rs" % ab, d + "/demo.rs")
        sec = [p for p in parts if p.startswith(ab.upper())]
        open(d + "/notes.md", "w").write(parts[0] + "## Change " + (sec[0] if sec else ""))
        m = re.search(r"\*\*What is needed to manifest\.?\*\*\.?(.*?)(?=\n\*\*|\nCommands|\Z)", sec[0] if sec else "", flags=re.S)
        needs = " ".join(m.group(1).split()) if m else "see notes.md"
        ver = open(out + "/verify_%s.txt" % ab).read().split()
        fr = re.search(r"#### %sr%s %s\n== (C\d\d rc=\d)" % (cid, rnd, ab), firstlog)
        files = sorted(set(re.findall(r"^\+\+\+ b/(\S+)", open(d + "/patch.diff").read(), flags=re.M)))
        meta = {"id": sid, "breaks_property": cid, "property_title": props[cid].get("title", ""), "round": int(rnd),
                "source": "written by an independent sub-agent (round %s) that saw only the property text, a scratch worktree of /repo and one-line summaries of the changes already tried for this property; told to write what bounded exploration, moderate random walks and single-fault injection would plausibly miss" % rnd,
                "summary": SUM[sid], "needs_to_manifest": needs, "files_touched": files,
                "confirmed_by_me": {"how": "tools/verify_seed.sh in a scratch worktree of /repo at " + head, "result": " ".join(ver)},
                "first_run": "quick check run BEFORE any hardening for this batch: " + (fr.group(1) if fr else "not run"), "detected_by": []}
        json.dump(meta, open(d + "/meta.json", "w"), indent=1)
        desc[sid] = SUM[sid]
        print(sid, meta["first_run"], "|", needs[:90])
json.dump(desc, open(os.path.join(ROOT, "seeded", "DESCRIPTIONS.json"), "w"), indent=1)
