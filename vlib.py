"""Driver machinery shared by all checks: build the harness, run TLC in its three modes
(M model-check, G generate+replay, V validate recorded traces), collect evidence, report."""
import concurrent.futures as cf
import json
import os
import re
import shutil
import subprocess
import sys
import time

ROOT = os.path.dirname(os.path.abspath(__file__))
HARNESS = os.path.join(ROOT, "harness")
FDV = os.path.join(HARNESS, "target", "release", "fdv")
SPEC = os.path.join(ROOT, "spec")
WORK = os.path.join(HARNESS, "target", "work")
TLC_CP = "/opt/veriftools/tla/tla2tools.jar:/opt/veriftools/tla/CommunityModules-deps.jar"
TLA_LIB = ":".join([os.path.join(SPEC, d) for d in ("", "mc", "gen", "trace", "proofs")] + ["/opt/veriftools/tlapm/lib/tlapm/stdlib"])


class ToolError(Exception):
    pass


def log(*a):
    print(*a, flush=True)


def build_harness():
    """cargo build of the harness; path dependencies => always /repo's current working tree."""
    t0 = time.time()
    env = dict(os.environ)
    env["CARGO_NET_OFFLINE"] = "true"
    p = subprocess.run(["cargo", "build", "--release", "--offline"], cwd=HARNESS, env=env,
                       stdout=subprocess.PIPE, stderr=subprocess.STDOUT, text=True)
    if p.returncode != 0:
        log(p.stdout[-4000:])
        raise ToolError("harness build failed (the code under test or the harness does not compile)")
    log("[build] harness built in %.1fs" % (time.time() - t0))


def workdir(prop, name):
    d = os.path.join(WORK, prop, name)
    shutil.rmtree(d, ignore_errors=True)
    os.makedirs(d, exist_ok=True)
    return d


def _java_cmd(metadir, args, xmx="4g", extra_opts=()):
    return ["java", "-XX:+UseParallelGC", "-Xmx" + xmx, "-Xss1g", *extra_opts,
            "-DTLA-Library=" + TLA_LIB, "-cp", TLC_CP, "tlc2.TLC",
            "-metadir", metadir, "-cleanup", "-noGenerateSpecTE", *args]


RE_STATES = re.compile(r"(\d+) states generated, (\d+) distinct states found")
RE_DEPTH = re.compile(r"The depth of the complete state graph search is (\d+)")
RE_COVER = re.compile(r"^<(\w+) line (\d+), col (\d+) to line (\d+), col (\d+) of module (\w+)>: (\d+):(\d+)")


def _unquote_gen(line, tag):
    # <<"TAG", "json-with-escapes">>
    m = re.match(r'^<<"%s", (".*")>>$' % tag, line)
    if not m:
        return None
    return json.loads(m.group(1))


def run_mc(prop, module, cfg, subdir, workers=8, timeout=900, gen_tag=None, gen_sink=None,
           coverage=True, xmx="8g", simulate=None, env_extra=None):
    """Model-check (or simulate) `module` (in spec/<subdir>) with `cfg`.
    Lines printed as <<"TAG", "json">> are unescaped and written to gen_sink (a file object or a
    subprocess stdin).  Returns a dict with states/distinct/depth/ok/output tail/coverage."""
    t0 = time.time()
    md = workdir(prop, "tlc_" + module + "_" + os.path.basename(cfg))
    args = ["-workers", str(workers), "-config", cfg]
    if coverage:
        args += ["-coverage", "1"]
    if simulate:
        args += ["-simulate", simulate[0], "-depth", str(simulate[1])]
    args.append(module + ".tla")
    env = dict(os.environ)
    if env_extra:
        env.update(env_extra)
    p = subprocess.Popen(["timeout", str(timeout)] + _java_cmd(md, args, xmx=xmx), cwd=os.path.join(SPEC, subdir),
                         stdout=subprocess.PIPE, stderr=subprocess.STDOUT, text=True, env=env, bufsize=1 << 20)
    tail = []
    n_gen = 0
    cov = {}
    res = {"states": 0, "distinct": 0, "depth": 0, "violated": None}
    prefix = '<<"%s", ' % gen_tag if gen_tag else None
    noerr = False
    count = 0
    for line in p.stdout:
        line = line.rstrip("\n")
        if prefix and line.startswith(prefix):
            s = _unquote_gen(line, gen_tag)
            if s is not None:
                gen_sink.write(s + "\n")
                n_gen += 1
                continue
        if line.startswith('<<"CNT", '):
            count += int(line[9:].rstrip(">"))
            continue
        if line.startswith("  |") or line.startswith("  line "):
            continue          # expression-level coverage detail
        if "No error has been found" in line:
            noerr = True
        if "is violated" in line and line.startswith("Error:"):
            res["violated"] = line
        m = RE_STATES.search(line)
        if m:
            res["states"], res["distinct"] = int(m.group(1)), int(m.group(2))
        m = RE_DEPTH.search(line)
        if m:
            res["depth"] = int(m.group(1))
        m = RE_COVER.match(line)
        if m:
            cov[m.group(1)] = cov.get(m.group(1), 0) + int(m.group(8))
        tail.append(line)
        if len(tail) > 400:
            del tail[:200]
    rc = p.wait()
    if gen_sink is not None:
        gen_sink.flush()
    text = "\n".join(tail)
    res.update(rc=rc, ok=(rc == 0 and (noerr or simulate is not None)), count=count, tail=text,
               n_gen=n_gen, coverage=cov, wall=time.time() - t0, module=module, cfg=os.path.basename(cfg))
    if rc == 124:
        if simulate is not None:
            res["ok"] = True
        else:
            raise ToolError("TLC timed out on %s/%s after %ss" % (module, cfg, timeout))
    return res


def run_validate(prop, spec_module, cfg, trace_file, timeout=1200, xmx="3g"):
    """Validate one recorded NDJSON trace against a trace spec.  Returns dict(accepted, n, rejected_at, event, states)."""
    t0 = time.time()
    md = workdir(prop, "val_" + os.path.basename(trace_file))
    env = dict(os.environ)
    env["TRACE"] = trace_file
    args = ["-workers", "1", "-config", cfg, spec_module + ".tla"]
    cmd = ["timeout", str(timeout)] + _java_cmd(md, args, xmx=xmx, extra_opts=("-Dtlc2.tool.queue.IStateQueue=StateDeque",))
    p = subprocess.run(cmd, cwd=os.path.join(SPEC, "trace"), stdout=subprocess.PIPE, stderr=subprocess.STDOUT, text=True, env=env)
    out = p.stdout
    res = {"file": trace_file, "accepted": False, "n": 0, "rejected_at": None, "event": None, "states": 0, "distinct": 0,
           "wall": time.time() - t0}
    m = RE_STATES.search(out)
    if m:
        res["states"], res["distinct"] = int(m.group(1)), int(m.group(2))
    m = re.search(r'<<"TRACE_ACCEPTED", (\d+)>>', out)
    if m:
        res["accepted"] = True
        res["n"] = int(m.group(1))
        return res
    m = re.search(r'<<"TRACE_REJECTED", (\d+), (\d+)>>', out)
    if m:
        res["rejected_at"] = int(m.group(1))
        res["n"] = int(m.group(2))
        for line in out.splitlines():
            s = _unquote_gen(line, "REJECTED_EVENT")
            if s is not None:
                res["event"] = json.loads(s)
        return res
    if p.returncode == 124:
        raise ToolError("trace validation timed out on %s" % trace_file)
    log(out[-3000:])
    raise ToolError("trace validation of %s neither accepted nor rejected (TLC error)" % trace_file)


def validate_all(prop, spec_module, cfg, files, procs=12, timeout=1200, xmx="3g"):
    files = [f for f in files if os.path.getsize(f) > 0]
    results = []
    with cf.ThreadPoolExecutor(max_workers=procs) as ex:
        futs = [ex.submit(run_validate, prop, spec_module, cfg, f, timeout, xmx) for f in files]
        for f in futs:
            results.append(f.result())
    return results


def run_tlapm(module, timeout=900):
    """Checks a TLAPS proof module in spec/proofs; returns (obligations, proved_all, seconds)."""
    t0 = time.time()
    d = os.path.join(SPEC, "proofs")
    shutil.rmtree(os.path.join(d, ".tlacache"), ignore_errors=True)
    p = subprocess.run(["timeout", str(timeout), "tlapm", "--cleanfp", "--threads", "8", module + ".tla"], cwd=d, stdout=subprocess.PIPE, stderr=subprocess.STDOUT, text=True)
    out = p.stdout
    shutil.rmtree(os.path.join(d, ".tlacache"), ignore_errors=True)
    m = re.search(r"All (\d+) obligations? proved", out)
    if m:
        return int(m.group(1)), True, time.time() - t0
    m = re.search(r"(\d+)/(\d+) obligations failed", out)
    if m:
        return int(m.group(2)), False, time.time() - t0
    log(out[-2000:])
    raise ToolError("tlapm gave no verdict on %s" % module)


def run_apalache(prop, module, init, inv, length, timeout=600):
    """apalache-mc check in a scratch directory; returns ("ok" | "violated", seconds)."""
    t0 = time.time()
    d = workdir(prop, "apalache_%s_%s_%d" % (module, inv, length))
    shutil.copy(os.path.join(SPEC, module + ".tla"), d)
    p = subprocess.run(["timeout", str(timeout), "apalache-mc", "check", "--init=" + init, "--inv=" + inv, "--length=%d" % length,
                        "--out-dir=" + os.path.join(d, "out"), module + ".tla"], cwd=d, stdout=subprocess.PIPE, stderr=subprocess.STDOUT, text=True)
    out = p.stdout
    shutil.rmtree(d, ignore_errors=True)
    if "The outcome is: NoError" in out:
        return "ok", time.time() - t0
    if "The outcome is: Error" in out and "invariant" in out:
        return "violated", time.time() - t0
    log(out[-2000:])
    raise ToolError("apalache gave no verdict on %s (%s)" % (module, inv))


def fdv(args, stdin_file=None, timeout=3600, capture=True):
    p = subprocess.run([FDV] + args, stdout=subprocess.PIPE if capture else None, stderr=subprocess.STDOUT if capture else None,
                       text=True, timeout=timeout, stdin=open(stdin_file) if stdin_file else None)
    if p.returncode != 0:
        log((p.stdout or "")[-3000:])
        raise ToolError("fdv %s failed with exit code %d" % (" ".join(args[:2]), p.returncode))
    return p.stdout or ""


def record(prop, tier, seed, shards, name=None, extra=()):
    d = workdir(prop, "traces_" + (name or prop))
    out = fdv(["record", name or prop, "--tier", tier, "--seed", str(seed), "--out", d, "--shards", str(shards), *extra])
    m = re.search(r"RECORDED (\d+)", out)
    if not m:
        log(out[-2000:])
        raise ToolError("fdv record produced no RECORDED line")
    files = sorted(os.path.join(d, f) for f in os.listdir(d) if f.endswith(".ndjson"))
    return files, int(m.group(1)), out


def parse_replay_output(out):
    mism = []
    summary = None
    for line in out.splitlines():
        if line.startswith("MISMATCH "):
            mism.append(json.loads(line[9:]))
        elif line.startswith("REPLAY_SUMMARY "):
            summary = json.loads(line[15:])
    if summary is None:
        log(out[-2000:])
        raise ToolError("replay produced no summary")
    return summary, mism


def read_event(path, index):
    with open(path) as f:
        for i, line in enumerate(f, 1):
            if i == index:
                return json.loads(line)
    return None


def read_events(path, lo, hi):
    out = []
    with open(path) as f:
        for i, line in enumerate(f, 1):
            if i >= lo and i <= hi:
                out.append(json.loads(line))
            if i > hi:
                break
    return out


def sample_lines(path, n=2, maxlen=600):
    out = []
    try:
        with open(path) as f:
            for i, line in enumerate(f):
                if i >= n:
                    break
                s = line.strip()
                out.append(json.loads(s) if len(s) <= maxlen else s[:maxlen] + "...")
    except OSError:
        pass
    return out


class Check:
    """Accumulates what a check covered and what it found; writes evidence; sets the exit code."""

    def __init__(self, prop, tier, seed):
        self.prop, self.tier, self.seed = prop, tier, seed
        self.t0 = time.time()
        self.states = 0
        self.transitions = 0
        self.traces = 0
        self.events = 0
        self.vectors = 0
        self.samples = []
        self.violations = []   # dicts with key, what, replay
        self.known_hits = []
        self.details = {}
        self.assumptions = []
        self.coverage_actions = {}
        self.exhaustive = False
        self.known = load_known(prop)

    # ---- M
    def mc(self, module, cfg, subdir="mc", **kw):
        r = run_mc(self.prop, module, cfg, subdir, **kw)
        log("[M] %s/%s: %d states generated, %d distinct, depth %d, %.1fs, ok=%s" %
            (module, r["cfg"], r["states"], r["distinct"], r["depth"], r["wall"], r["ok"]))
        if not r["ok"]:
            log(r["tail"][-3000:])
            raise ToolError("model checking of %s/%s failed: the specification itself violates an invariant or has an error "
                            "(this is a defect of the specification, not of the code under test)" % (module, r["cfg"]))
        self.states += r["distinct"]
        self.transitions += r["states"]
        self.details.setdefault("model_runs", []).append(
            {"module": module, "cfg": r["cfg"], "states_generated": r["states"], "distinct": r["distinct"],
             "depth": r["depth"], "wall_s": round(r["wall"], 1), "generated_vectors": r["n_gen"]})
        for k, v in r["coverage"].items():
            self.coverage_actions[module + "." + k] = self.coverage_actions.get(module + "." + k, 0) + v
        return r

    # ---- G
    def replay_vectors(self, name, gen_file, what):
        out = fdv(["replay", name, gen_file])
        summary, mism = parse_replay_output(out)
        log("[G] %s: %d comparisons against the real code, %d mismatches" % (what, summary["checked"], summary["mismatches"]))
        self.vectors += summary["checked"]
        self.details.setdefault("replays", []).append({"what": what, "comparisons": summary["checked"],
                                                       "mismatches": summary["mismatches"], "extra": summary.get("extra")})
        for s in sample_lines(gen_file, 1):
            self.samples.append({"mode": "G (spec->impl vector)", "what": what, "case": s})
        for m in mism[:5]:
            key = "G:%s:%s:%s" % (name, m.get("what"), json.dumps(m.get("ctx"), sort_keys=True)[:300])
            self.violation(key, "spec->impl replay mismatch in %s: %s" % (what, m.get("what")),
                           {"mode": "G", "name": name, "mismatch": m})
        if summary["mismatches"] > len(mism[:5]):
            self.details["more_mismatches_not_listed"] = summary["mismatches"] - len(mism[:5])
        return summary

    # ---- V
    def validate(self, spec_module, cfg, files, record_args, procs=12, timeout=1200, xmx="3g", key_fn=None):
        rs = validate_all(self.prop, spec_module, cfg, files, procs=procs, timeout=timeout, xmx=xmx)
        n_ok = sum(1 for r in rs if r["accepted"])
        ev = sum(r["n"] if r["accepted"] else (r["rejected_at"] or 1) - 1 for r in rs)
        log("[V] %s: %d/%d trace files accepted, %d events validated, %.1fs max per file" %
            (spec_module, n_ok, len(rs), ev, max([r["wall"] for r in rs] or [0])))
        self.traces += len(rs)
        self.events += ev
        self.states += sum(r["distinct"] for r in rs)
        self.transitions += sum(r["states"] for r in rs)
        self.details.setdefault("validations", []).append(
            {"trace_spec": spec_module, "files": len(rs), "accepted": n_ok, "events_validated": ev})
        if files:
            for s in sample_lines(files[0], 2):
                self.samples.append({"mode": "V (impl->spec event)", "trace_spec": spec_module, "case": s})
        for r in rs:
            if not r["accepted"]:
                idx = r["rejected_at"]
                ev_ = r["event"] if r["event"] is not None else read_event(r["file"], idx)
                ctx = read_events(r["file"], max(1, idx - 40), idx - 1)
                key = key_fn(ev_, ctx) if key_fn else "V:%s:%s" % (spec_module, json.dumps(ev_, sort_keys=True)[:400])
                self.violation(key, "recorded event %d of %s is not a behaviour of %s" % (idx, os.path.basename(r["file"]), spec_module),
                               {"mode": "V", "trace_spec": spec_module, "cfg": cfg, "record_args": record_args, "trace_file": os.path.basename(r["file"]),
                                "shards": len(files),
                                "event_index": idx, "rejected_event": ev_, "preceding_events": ctx})
        return rs

    def violation(self, key, what, payload):
        for k in self.known:
            if k["key"] == key:
                self.known_hits.append((k, what))
                return
        d = os.path.join(ROOT, "replays", self.prop)
        os.makedirs(d, exist_ok=True)
        n = len(self.violations) + 1
        path = os.path.join(d, "%s_%s_%d.json" % (self.prop, self.tier, n))
        payload = dict(payload)
        payload.update(property=self.prop, tier=self.tier, seed=self.seed, key=key, what=what)
        with open(path, "w") as f:
            json.dump(payload, f, indent=1)
        self.violations.append({"key": key, "what": what, "replay": path})

    def finish(self, level, rule, extra_cov=None):
        wall = time.time() - self.t0
        cov = {
            "states": self.states,
            "transitions": self.transitions,
            "traces_validated_against_impl": self.traces + (1 if self.vectors else 0),
            "events_validated": self.events,
            "spec_vectors_replayed_into_impl": self.vectors,
            "evaluations": self.events + self.vectors + self.states,
            "distinct_nontrivial": self.events + self.vectors,
            "rule": rule,
            "samples": self.samples[:8] or [{"note": "no samples"}],
            "exhaustive": self.exhaustive,
            "details": self.details,
            "tlc_action_coverage": self.coverage_actions,
            "explanation": rule,
        }
        if extra_cov:
            cov.update(extra_cov)
        ev = {"property_id": self.prop, "tier": self.tier, "seed": self.seed, "level": level, "coverage": cov,
              "assumptions": self.assumptions, "wall_s": round(wall, 1), "violations": len(self.violations)}
        evdir = "evidence" if self.prop.startswith("C") else "evidence_extra"
        os.makedirs(os.path.join(ROOT, evdir), exist_ok=True)
        with open(os.path.join(ROOT, evdir, self.prop + ".json"), "w") as f:
            json.dump(ev, f, indent=1)
        for k, what in self.known_hits:
            log("KNOWN-FINDING: property=%s %s" % (self.prop, k["text"]))
        for v in self.violations:
            log("VIOLATION property=%s replay=%s" % (self.prop, v["replay"]))
            log("  " + v["what"])
        log("[%s %s] states=%d transitions=%d events=%d vectors=%d violations=%d wall=%.1fs" %
            (self.prop, self.tier, self.states, self.transitions, self.events, self.vectors, len(self.violations), wall))
        return 1 if self.violations else 0


def load_known(prop):
    out = []
    p = os.path.join(ROOT, "known_findings.txt")
    if not os.path.exists(p):
        return out
    for line in open(p):
        line = line.strip()
        m = re.match(r"known: property=(\S+) key=(\S+) (.*)$", line)
        if m and m.group(1) == prop:
            out.append({"key": m.group(2), "text": m.group(3)})
    return out
